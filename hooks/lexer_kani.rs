//! Kani harnesses on the REAL leaf functions of sas-lexer (compiled into the crate only under cfg(kani) through
//! the guarded `mod verif_kani` hook in lexer/mod.rs). Every harness here is loop-free over its full input
//! domain (a complete proof, not a bounded one) unless its name ends in `_bounded`.
use super::lexer_mode::{
    MacroArgContext, MacroArgNameValueFlags, MacroEvalExprFlags, MacroEvalNextArgumentMode, MacroEvalNumericMode,
};
use super::r#macro::{
    is_macro_eval_logical_op, is_macro_eval_mnemonic, is_macro_eval_quotable_op, is_macro_percent,
    is_macro_quote_call_tok_type, is_macro_stat_tok_type,
};
#[cfg(feature = "macro_sep")]
use super::r#macro::needs_macro_sep;
use super::token_type::TokenType;
use strum::EnumCount;

/// any TokenType (the enum is `repr(u16)` with contiguous discriminants from 0; `test_all_tokens_round_trip`)
fn any_token_type() -> TokenType {
    let x: u16 = kani::any();
    kani::assume((x as usize) < TokenType::COUNT);
    // SAFETY: x is a valid discriminant
    unsafe { std::mem::transmute::<u16, TokenType>(x) }
}

fn any_ascii_or_small_char() -> char {
    // all of ASCII plus a few non-ASCII representatives (XID_Continue and not)
    let c: u8 = kani::any();
    match c {
        0..=127 => c as char,
        128 => 'é',
        129 => '¦',
        130 => 'я',
        131 => '€',
        _ => '\u{3000}',
    }
}

// ------------------------------------------------------------------------------------------ C18
/// C18: a MacroSep stands only directly before a macro statement keyword or macro label and never
/// directly after a semicolon, a label, %then or %else — at the predicate, for every type pair
#[cfg(feature = "macro_sep")]
#[kani::proof]
fn c18_needs_macro_sep_table() {
    let prev: Option<TokenType> = if kani::any() { Some(any_token_type()) } else { None };
    let tok = any_token_type();
    if needs_macro_sep(prev, tok) {
        assert!(tok == TokenType::MacroLabel || is_macro_stat_tok_type(tok));
        assert!(!matches!(
            prev,
            None | Some(TokenType::SEMI | TokenType::MacroLabel | TokenType::KwmThen | TokenType::KwmElse)
        ));
    }
    // C15-style local fact: "no previous token" behaves like a preceding semicolon
    assert!(needs_macro_sep(None, tok) == needs_macro_sep(Some(TokenType::SEMI), tok));
}

// ------------------------------------------------------------------------------------------ C13 flags
fn any_numeric_mode() -> MacroEvalNumericMode {
    if kani::any() { MacroEvalNumericMode::Float } else { MacroEvalNumericMode::Integer }
}
fn any_next_arg_mode() -> MacroEvalNextArgumentMode {
    let x: u8 = kani::any();
    match x % 4 {
        0 => MacroEvalNextArgumentMode::None,
        1 => MacroEvalNextArgumentMode::SingleEvalExpr,
        2 => MacroEvalNextArgumentMode::EvalExpr,
        _ => MacroEvalNextArgumentMode::MacroArg,
    }
}

/// C13: every getter of the packed expression flags returns what `new` was given, and
/// terminate_on_comma holds exactly when a following argument mode is set
#[kani::proof]
fn c13_macro_eval_expr_flags_round_trip() {
    let nm = any_numeric_mode();
    let na = any_next_arg_mode();
    let (ts, tsemi, pmc): (bool, bool, bool) = (kani::any(), kani::any(), kani::any());
    let f = MacroEvalExprFlags::new(nm, na, ts, tsemi, pmc);
    assert!(f.float_mode() == matches!(nm, MacroEvalNumericMode::Float));
    assert!(matches!(f.numeric_mode(), MacroEvalNumericMode::Float) == matches!(nm, MacroEvalNumericMode::Float));
    assert!(f.terminate_on_stat() == ts);
    assert!(f.terminate_on_semi() == tsemi);
    assert!(f.parens_mask_comma() == pmc);
    assert!(f.follow_arg_mode() as u8 == na as u8);
    assert!(f.terminate_on_comma() == !matches!(na, MacroEvalNextArgumentMode::None));
}

#[kani::proof]
fn c13_macro_arg_name_value_flags_round_trip() {
    let x: u8 = kani::any();
    let ctx = match x % 3 {
        0 => MacroArgContext::BuiltInMacro,
        1 => MacroArgContext::MacroCall,
        _ => MacroArgContext::MacroDef,
    };
    let (p, t): (bool, bool) = (kani::any(), kani::any());
    let f = MacroArgNameValueFlags::new(ctx, p, t);
    assert!(f.context() as u8 == ctx as u8);
    assert!(f.populate_next_arg_stack() == p);
    assert!(f.terminate_on_comma() == t);
}

// ------------------------------------------------------------------------------------------ C13 / C16 mnemonics
fn lower(c: char) -> char {
    c.to_ascii_lowercase()
}

/// reference: the mnemonic spelled by the first 2–3 characters, case-insensitively, iff the next
/// character cannot continue an identifier (from the property statement: operators are tokens)
fn mnemonic_ref(w: [char; 4], n: usize) -> (Option<TokenType>, u32) {
    if n < 2 {
        return (None, 0);
    }
    let at = |i: usize| if i < n { w[i] } else { ' ' };
    let two = (lower(w[0]), lower(w[1]));
    let non_id = |c: char| !unicode_ident::is_xid_continue(c);
    let r2 = match two {
        ('e', 'q') => Some(TokenType::KwEQ),
        ('i', 'n') => Some(TokenType::KwIN),
        ('o', 'r') => Some(TokenType::KwOR),
        ('l', 't') => Some(TokenType::KwLT),
        ('l', 'e') => Some(TokenType::KwLE),
        ('g', 't') => Some(TokenType::KwGT),
        ('g', 'e') => Some(TokenType::KwGE),
        ('n', 'e') => Some(TokenType::KwNE),
        _ => None,
    };
    if let Some(t) = r2 {
        return if non_id(at(2)) { (Some(t), 1) } else { (None, 0) };
    }
    let three = (two.0, two.1, lower(at(2)));
    let r3 = match three {
        ('a', 'n', 'd') => Some(TokenType::KwAND),
        ('n', 'o', 't') => Some(TokenType::KwNOT),
        _ => None,
    };
    match r3 {
        Some(t) if non_id(at(3)) => (Some(t), 2),
        _ => (None, 0),
    }
}

fn is_mnemonic_start(c: char) -> bool {
    matches!(c, 'e' | 'n' | 'l' | 'g' | 'a' | 'o' | 'i' | 'E' | 'N' | 'L' | 'G' | 'A' | 'O' | 'I')
}

/// C13/C16: is_macro_eval_mnemonic equals the case-insensitive reference on every window of up to 4 chars
#[kani::proof]
fn c13_c16_mnemonic_table() {
    let w = [any_ascii_or_small_char(), any_ascii_or_small_char(), any_ascii_or_small_char(), any_ascii_or_small_char()];
    let n: usize = kani::any();
    kani::assume(n >= 1 && n <= 4);
    kani::assume(is_mnemonic_start(w[0])); // the function's own debug assertion (its callers test this first)
    let got = is_macro_eval_mnemonic(w.iter().copied().take(n));
    let want = mnemonic_ref(w, n);
    assert!(got.0 == want.0);
    assert!(got.1 == want.1);
}

/// C16: changing the ASCII case of any of the letters does not change the answer
#[kani::proof]
fn c16_mnemonic_case_independent() {
    let w = [any_ascii_or_small_char(), any_ascii_or_small_char(), any_ascii_or_small_char(), any_ascii_or_small_char()];
    kani::assume(is_mnemonic_start(w[0]));
    let mask: u8 = kani::any();
    let mut v = w;
    let mut i = 0;
    while i < 4 {
        if mask & (1 << i) != 0 {
            v[i] = if w[i].is_ascii_lowercase() { w[i].to_ascii_uppercase() } else { w[i].to_ascii_lowercase() };
        }
        i += 1;
    }
    let n: usize = kani::any();
    kani::assume(n >= 1 && n <= 4);
    let a = is_macro_eval_mnemonic(w.iter().copied().take(n));
    let b = is_macro_eval_mnemonic(v.iter().copied().take(n));
    assert!(a.0 == b.0 && a.1 == b.1);
}

// ------------------------------------------------------------------------------------------ C13 / C16 small predicates
#[kani::proof]
fn c13_quotable_ops_and_percent() {
    let c = any_ascii_or_small_char();
    assert!(is_macro_eval_quotable_op(c) == (c == '~' || c == '^' || c == '='));
    // a `*` after `%` always starts a macro comment; a quotable operator only counts in eval context
    assert!(is_macro_percent('*', false) && is_macro_percent('*', true));
    if is_macro_eval_quotable_op(c) {
        assert!(is_macro_percent(c, true) && !is_macro_percent(c, false));
    }
    // C16: ASCII case of the follower does not matter
    if c.is_ascii_alphabetic() {
        let d = if c.is_ascii_lowercase() { c.to_ascii_uppercase() } else { c.to_ascii_lowercase() };
        assert!(is_macro_percent(c, false) == is_macro_percent(d, false));
        assert!(is_macro_percent(c, true) == is_macro_percent(d, true));
    }
}

#[kani::proof]
fn c13_token_type_ranges() {
    let t = any_token_type();
    // statement keywords and quoting built-ins are disjoint classes; logical operators are neither
    assert!(!(is_macro_stat_tok_type(t) && is_macro_quote_call_tok_type(t)));
    if is_macro_eval_logical_op(t) {
        assert!(!is_macro_stat_tok_type(t) && !is_macro_quote_call_tok_type(t));
    }
    assert!(is_macro_quote_call_tok_type(TokenType::KwmStr) && is_macro_quote_call_tok_type(TokenType::KwmNrStr));
    assert!(is_macro_stat_tok_type(TokenType::KwmLet) && is_macro_stat_tok_type(TokenType::KwmDo));
    assert!(!is_macro_stat_tok_type(TokenType::MacroIdentifier) && !is_macro_stat_tok_type(TokenType::KwmEval));
}

/// C18/C06 (contracts/frag/macro_stat.vx: external contracts of the two range predicates): the discriminant ranges
/// are exactly the keyword classes they stand for — the macro STATEMENT keywords and the macro QUOTING functions
#[kani::proof]
fn c18_macro_kw_class_tables() {
    let t = any_token_type();
    assert!(
        is_macro_stat_tok_type(t)
            == matches!(
                t,
                TokenType::KwmAbort | TokenType::KwmCopy | TokenType::KwmDisplay | TokenType::KwmDo | TokenType::KwmTo
                    | TokenType::KwmBy | TokenType::KwmUntil | TokenType::KwmWhile | TokenType::KwmEnd
                    | TokenType::KwmGlobal | TokenType::KwmGoto | TokenType::KwmIf | TokenType::KwmThen
                    | TokenType::KwmElse | TokenType::KwmInput | TokenType::KwmLet | TokenType::KwmLocal
                    | TokenType::KwmMacro | TokenType::KwmMend | TokenType::KwmPut | TokenType::KwmReturn
                    | TokenType::KwmSymdel | TokenType::KwmSyscall | TokenType::KwmSysexec | TokenType::KwmSyslput
                    | TokenType::KwmSysmacdelete | TokenType::KwmSysmstoreclear | TokenType::KwmSysrput
                    | TokenType::KwmWindow | TokenType::KwmInclude | TokenType::KwmList | TokenType::KwmRun
            )
    );
    assert!(
        is_macro_quote_call_tok_type(t)
            == matches!(
                t,
                TokenType::KwmBquote | TokenType::KwmNrBquote | TokenType::KwmNrQuote | TokenType::KwmQuote
                    | TokenType::KwmSuperq | TokenType::KwmStr | TokenType::KwmNrStr
            )
    );
}

// (a bounded harness on hex.rs::parse_sas_hex_string with a 2-character content did not finish in 15 min /
//  String+Vec+iterator chains+encoding tables: the hex decoder is outside what CBMC can do here; see DESIGN.md)

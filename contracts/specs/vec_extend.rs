/// the elements an `IntoIterator` value yields, in order
pub uninterp spec fn into_iter_seq<I: IntoIterator>(i: I) -> Seq<I::Item>;
#[verifier::external_body]
pub proof fn axiom_into_iter_seq_vec<T>(v: Vec<T>)
    ensures into_iter_seq(v) == v@,
{}
pub assume_specification<T, A: Allocator, I: IntoIterator<Item = T>>[ <Vec<T, A> as Extend<T>>::extend ](v: &mut Vec<T, A>, iter: I)
    ensures final(v)@ == old(v)@ + into_iter_seq(iter);
//@trusted assume_specification Vec::extend(iter) appends the elements iter yields; axiom: a Vec yields its elements in order

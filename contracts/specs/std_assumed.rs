// ---- assumed specifications of std functions that vstd does not specify (trusted base A4) ----
pub assume_specification<'a>[ <Chars<'a> as Clone>::clone ](c: &Chars<'a>) -> (r: Chars<'a>)
    ensures r.remaining() == c.remaining(), r.decrease() == c.decrease(),
            r.obeys_prophetic_iter_laws() == c.obeys_prophetic_iter_laws();
pub assume_specification<'a>[ Chars::<'a>::as_str ](c: &Chars<'a>) -> (r: &'a str)
    ensures r@ == c.remaining();
//@trusted assume_specification <Chars as Clone>::clone preserves remaining()/decrease()
//@trusted assume_specification Chars::as_str returns the remaining chars

// ---- assumed specifications of std functions that vstd does not specify (trusted base A4) ----
pub assume_specification<'a>[ <Chars<'a> as Clone>::clone ](c: &Chars<'a>) -> (r: Chars<'a>)
    ensures r.remaining() == c.remaining(), r.decrease() == c.decrease(),
            r.obeys_prophetic_iter_laws() == c.obeys_prophetic_iter_laws();
pub assume_specification<'a>[ Chars::<'a>::as_str ](c: &Chars<'a>) -> (r: &'a str)
    ensures r@ == c.remaining();
//@trusted assume_specification <Chars as Clone>::clone preserves remaining()/decrease()
//@trusted assume_specification Chars::as_str returns the remaining chars
pub assume_specification[ <u32 as From<bool>>::from ](b: bool) -> (r: u32)
    ensures r == (if b { 1u32 } else { 0u32 });
//@trusted assume_specification <u32 as From<bool>>::from(b) == if b {1} else {0}
pub assume_specification<T: PartialEq, E: PartialEq>[ <Result<T, E> as PartialEq>::eq ](a: &Result<T, E>, b: &Result<T, E>) -> (r: bool)
    ensures (T::obeys_eq_spec() && E::obeys_eq_spec()) ==> r == (match (*a, *b) {
        (Ok(x), Ok(y)) => x.eq_spec(&y),
        (Err(x), Err(y)) => x.eq_spec(&y),
        _ => false,
    });
//@trusted assume_specification <Result<T,E> as PartialEq>::eq is variant-wise equality

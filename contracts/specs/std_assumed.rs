// ---- assumed specifications of std functions that vstd does not specify (trusted base A4) ----
pub assume_specification<'a>[ <Chars<'a> as Clone>::clone ](c: &Chars<'a>) -> (r: Chars<'a>)
    ensures r.remaining() == c.remaining(), r.decrease() == c.decrease(),
            r.obeys_prophetic_iter_laws() == c.obeys_prophetic_iter_laws();
pub assume_specification<'a>[ Chars::<'a>::as_str ](c: &Chars<'a>) -> (r: &'a str)
    ensures r@ == c.remaining();
//@trusted assume_specification <Chars as Clone>::clone preserves remaining()/decrease()
//@trusted assume_specification Chars::as_str returns the remaining chars
pub assume_specification[ <u32 as From<bool>>::from ](b: bool) -> (r: u32)
    ensures r == (if b { 1u32 } else { 0u32 });
//@trusted assume_specification <u32 as From<bool>>::from(b) == if b {1} else {0}
pub assume_specification<T: PartialEq, E: PartialEq>[ <Result<T, E> as PartialEq>::eq ](a: &Result<T, E>, b: &Result<T, E>) -> (r: bool)
    ensures (T::obeys_eq_spec() && E::obeys_eq_spec()) ==> r == (match (*a, *b) {
        (Ok(x), Ok(y)) => x.eq_spec(&y),
        (Err(x), Err(y)) => x.eq_spec(&y),
        _ => false,
    });
//@trusted assume_specification <Result<T,E> as PartialEq>::eq is variant-wise equality
pub assume_specification[ String::len ](s: &String) -> (r: usize)
    ensures r as int == blen(s@);
pub assume_specification[ String::with_capacity ](n: usize) -> (r: String)
    ensures r@ == Seq::<char>::empty();
/// std: "Panics if new_len does not lie on a char boundary"; no effect if new_len >= len
pub assume_specification[ String::truncate ](s: &mut String, new_len: usize)
    requires new_len as int >= blen(old(s)@)
        || exists|k: int| 0 <= k <= old(s)@.len() && blen(old(s)@.take(k)) == new_len as int,
    ensures new_len as int >= blen(old(s)@) ==> final(s)@ == old(s)@,
        forall|k: int| 0 <= k <= old(s)@.len() && blen(old(s)@.take(k)) == new_len as int ==> final(s)@ == old(s)@.take(k);
//@trusted assume_specification String::len == UTF-8 length of the view; String::with_capacity is empty; String::truncate keeps the char prefix of that byte length (panics off a boundary)
/// AsRef<str>: a spec-level name for what `as_ref()` returns (external trait specification)
#[verifier::external_trait_specification]
#[verifier::external_trait_extension(AsRefSpec via AsRefSpecImpl)]
pub trait ExAsRef<T: PointeeSized>: PointeeSized {
    type ExternalTraitSpecificationFor: AsRef<T>;
    spec fn as_ref_spec(&self) -> &T;
    fn as_ref(&self) -> (r: &T)
        ensures r == self.as_ref_spec();
}
impl AsRefSpecImpl<str> for str {
    open spec fn as_ref_spec(&self) -> &str { self }
}
impl<T: PointeeSized + AsRef<U>, U: PointeeSized> AsRefSpecImpl<U> for &T {
    open spec fn as_ref_spec(&self) -> &U { (**self).as_ref_spec() }
}
pub uninterp spec fn string_as_str(s: &String) -> &str;
pub broadcast axiom fn axiom_string_as_str(s: &String)
    ensures (#[trigger] string_as_str(s))@ == s@;
impl AsRefSpecImpl<str> for String {
    open spec fn as_ref_spec(&self) -> &str { string_as_str(self) }
}
//@trusted std: AsRef<str> for str / &str / String returns the string itself (AsRefSpecImpl blocks, axiom_string_as_str)
pub assume_specification<T: Ord>[ std::cmp::max::<T> ](a: T, b: T) -> (r: T)
    ensures r == a || r == b;
//@trusted assume_specification std::cmp::max::<usize>
//@if rustc_nightly
pub assume_specification<T, A: std::alloc::Allocator>[ Vec::<T, A>::push_within_capacity ](v: &mut Vec<T, A>, value: T) -> (r: Result<&mut T, T>)
    ensures match r { Ok(_) => final(v)@ == old(v)@.push(value), Err(x) => final(v)@ == old(v)@ && x == value };
pub assume_specification<T, A: std::alloc::Allocator>[ Vec::<T, A>::capacity ](v: &Vec<T, A>) -> (r: usize);
//@trusted assume_specification Vec::push_within_capacity pushes or returns the value unchanged (nightly path)
//@endif
pub assume_specification<'a>[ <Chars<'a> as Iterator>::count ](c: Chars<'a>) -> (r: usize)
    ensures r == c.remaining().len();
//@trusted assume_specification <Chars as Iterator>::count == number of remaining scalar values
/// str::get is the generic wrapper around SliceIndex<str>::get, which vstd specifies
pub assume_specification<I: SliceIndex<str>>[ str::get::<I> ](s: &str, i: I) -> (r: Option<&<I as SliceIndex<str>>::Output>)
    ensures match r { None => !i.in_bounds(s), Some(x) => i.in_bounds(s) && i.index_postcondition(s, x) };
//@trusted assume_specification str::get(i) == SliceIndex::get(i, s) (std definition)
pub assume_specification<T: PartialEq>[ <[T]>::contains ](s: &[T], x: &T) -> (r: bool)
    ensures r == (exists|i: int| 0 <= i < s@.len() && #[trigger] s@[i] == *x);
//@trusted assume_specification <[T]>::contains(x) == some element equals x (std definition; used only at T = char, whose PartialEq is identity)
pub assume_specification<T: Ord>[ std::cmp::min::<T> ](a: T, b: T) -> (r: T)
    ensures T::obeys_cmp_spec() ==> r == (if b.cmp_spec(&a) == Ordering::Less { b } else { a });
//@trusted assume_specification std::cmp::min (std definition: b if b < a else a)

"""extra engines of the check driver: Kani harnesses on the real crate (through the cfg(kani) hook)"""
import json, os, re, subprocess, time


class Undecided(Exception):
    pass


def run(eng, prop, tier, REPO, ROOT, BUILD):
    if eng["kind"] == "kani":
        return run_kani(eng, prop, tier, REPO, ROOT, BUILD)
    if eng["kind"] == "scan":
        return run_scan(eng, prop, tier, REPO, ROOT, BUILD)
    raise Undecided(f"unknown engine {eng}")


def run_kani(eng, prop, tier, REPO, ROOT, BUILD):
    t0 = time.time()
    harnesses = eng["harnesses"]
    feats = eng.get("features", "macro_sep")
    cmd = ["cargo", "kani", "--target-dir", os.path.join(BUILD, "kani-target"), "-j", "8", "--output-format", "terse"]
    if feats:
        cmd += ["--features", feats]
    for h in harnesses:
        cmd += ["--harness", h]
    env = dict(os.environ, CARGO_NET_OFFLINE="true")
    try:
        r = subprocess.run(cmd, cwd=os.path.join(REPO, "crates/sas-lexer"), env=env, stdout=subprocess.PIPE,
                           stderr=subprocess.STDOUT, text=True, timeout=eng.get("timeout", 1500))
    except subprocess.TimeoutExpired:
        return {"engine": "kani", "undecided": [f"kani: timeout on {harnesses}"], "obligations": 0, "discharged": 0}
    out = r.stdout
    res = {"engine": "kani", "harnesses": {}, "failures": [], "undecided": [], "obligations": 0, "discharged": 0,
           "samples": [], "solver_ms": 0,
           "trusted": ["Kani 0.68/CBMC 6.11 soundness; harnesses run the real functions compiled with cfg(kani); "
                       "`any_token_type` transmutes a u16 below TokenType::COUNT (repr(u16), contiguous discriminants)"]}
    # terse output with worker threads: "Thread N: Checking harness X..." then "Thread N: <result block>"
    seen = set()
    cur = {}
    blocks = re.split(r"(?m)^(Thread \d+): ", out)
    # blocks = [pre, tag, text, tag, text, ...]
    for i in range(1, len(blocks) - 1, 2):
        tag, text = blocks[i], blocks[i + 1]
        mh = re.match(r"Checking harness (\S+?)\.\.\.", text)
        if mh:
            cur[tag] = mh.group(1).split("::")[-1]
            continue
        name = cur.get(tag)
        if name is None or "VERIFICATION" not in text:
            continue
        seen.add(name)
        m = re.search(r"\*\* (\d+) of (\d+) failed", text)
        ok = "VERIFICATION:- SUCCESSFUL" in text
        tm = re.search(r"Verification Time: ([0-9.]+)s", text)
        nchecks = int(m.group(2)) if m else 0
        nfail = int(m.group(1)) if m else 0
        res["harnesses"][name] = {"checks": nchecks, "failed": nfail, "ok": ok, "time_s": float(tm.group(1)) if tm else None}
        res["obligations"] += 1
        res["solver_ms"] += int(float(tm.group(1)) * 1000) if tm else 0
        if ok:
            res["discharged"] += 1
        elif "VERIFICATION:- FAILED" in text:
            fails = re.findall(r"Failed Checks: ([^\n]*)\n\s*File: ([^\n]*)", text)
            desc = "; ".join(f"{d} @ {l}" for d, l in fails[:4]) or "see kani output"
            res["failures"].append({"unit": "KANI", "cfg": feats or "default", "function": name, "props": [prop],
                                    "kind": "kani harness failed", "clause": desc[:240], "src": "hooks/lexer_kani.rs",
                                    "gen_line": 0, "rendered": text[-3000:]})
        else:
            res["undecided"].append(f"kani: harness {name} neither succeeded nor failed (build or tool error)")
        res["samples"].append({"harness": name, "checks": nchecks, "ok": ok})
    missing = [h for h in harnesses if h not in seen]
    if missing:
        tail = out[-1500:]
        res["undecided"].append(f"kani: harnesses did not run: {missing}: {tail}")
    res["wall_s"] = round(time.time() - t0, 1)
    return res


def run_scan(eng, prop, tier, REPO, ROOT, BUILD):
    t0 = time.time()
    vx = os.path.join(ROOT, "vx/target/release/vx")
    r = subprocess.run([vx, "scan", eng["name"], "--src", os.path.join(REPO, "crates/sas-lexer/src/lexer")],
                       stdout=subprocess.PIPE, stderr=subprocess.PIPE, text=True)
    try:
        j = json.loads(r.stdout)
    except Exception:
        return {"engine": "scan", "undecided": [f"scan {eng['name']}: {r.stderr.strip()[:500]}"], "obligations": 0, "discharged": 0}
    nv = len(j.get("violations", []))
    res = {"engine": "scan:" + eng["name"], "failures": [], "undecided": [], "obligations": 1 + nv,
           "discharged": 1, "sites_scanned": j.get("sites", 0), "samples": j.get("samples", [])[:6],
           "trusted": j.get("trusted", []), "detail": j.get("detail", {})}
    for v in j.get("violations", []):
        if eng.get("frame_only"):
            res["undecided"].append(f"frame lost ({eng['name']}): {v}")
        else:
            res["failures"].append({"unit": "SCAN", "cfg": "source", "function": v.get("where", "?"), "props": [prop],
                                    "kind": "scan:" + eng["name"], "clause": v.get("what", "")[:240], "src": v.get("where", ""),
                                    "gen_line": 0, "rendered": json.dumps(v)})
    res["wall_s"] = round(time.time() - t0, 1)
    return res

use vstd::prelude::*;
use vstd::std_specs::iter::IteratorSpec;
use std::str::Chars;
verus! {
pub assume_specification<'a>[ <Chars<'a> as Clone>::clone ](c: &Chars<'a>) -> (r: Chars<'a>)
    ensures r.remaining() == c.remaining(), r.decrease() == c.decrease();

pub const EOF_CHAR: char = '\0';
pub struct Cursor<'a> { pub chars: Chars<'a>, pub char_offset: u32 }
impl<'a> Cursor<'a> {
    #[verifier::prophetic]
    pub open spec fn rem(&self) -> Seq<char> { self.chars.remaining() }
    pub fn peek(&self) -> (r: Option<char>)
        ensures r == (if self.rem().len() > 0 { Some(self.rem()[0]) } else { None })
    { self.chars.clone().next() }
    pub fn peek_next(&self) -> (r: char)
        ensures r == (if self.rem().len() > 1 { self.rem()[1] } else { EOF_CHAR })
    { let mut iter = self.chars.clone(); iter.next(); iter.next().unwrap_or(EOF_CHAR) }
    pub fn advance(&mut self) -> (r: Option<char>)
        requires old(self).char_offset < u32::MAX
        ensures
            old(self).chars.decrease().is_some() == final(self).chars.decrease().is_some(),
            old(self).rem().len() > 0 && old(self).chars.decrease().is_some() ==> final(self).chars.decrease().unwrap() < old(self).chars.decrease().unwrap(),
            old(self).rem().len() == 0 ==> r.is_none() && final(self).rem() == old(self).rem() && final(self).char_offset == old(self).char_offset,
            old(self).rem().len() > 0 ==> r == Some(old(self).rem()[0]) && final(self).rem() == old(self).rem().skip(1) && final(self).char_offset == old(self).char_offset + 1,
            forall|src: Seq<char>| #![trigger src.skip(old(self).char_offset as int)] old(self).char_offset <= src.len() && old(self).rem() == src.skip(old(self).char_offset as int) ==>
                final(self).rem() == src.skip(final(self).char_offset as int) && final(self).char_offset <= src.len()
                && (r.is_some() ==> old(self).char_offset < src.len() && r == Some(src[old(self).char_offset as int]))
                && (r.is_none() ==> old(self).char_offset == src.len()),
    {
        let c = self.chars.next();
        proof {
            assert forall|src: Seq<char>| old(self).char_offset <= src.len() && old(self).rem() == #[trigger] src.skip(old(self).char_offset as int) implies
                (c.is_some() ==> old(self).rem().skip(1) == src.skip(old(self).char_offset as int + 1) && old(self).char_offset < src.len() && c == Some(src[old(self).char_offset as int]))
                && (c.is_none() ==> old(self).char_offset == src.len()) by {
                let o = old(self).char_offset as int;
                if c.is_some() { assert(src.skip(o).skip(1) == src.skip(o + 1)); }
            }
        }
        let c = c?; self.char_offset += 1; Some(c) }
}

#[derive(PartialEq, Eq, Clone, Copy)] pub enum Chan { DEFAULT, HIDDEN, COMMENT }
#[derive(PartialEq, Eq, Clone, Copy)] pub enum TT { WS, CStyleComment }
#[derive(PartialEq, Eq, Clone, Copy)] pub enum EK { UnterminatedComment }
pub struct Tok { pub ch: Chan, pub tt: TT, pub start: u32 }

// abstract lexer: src as ghost, pos = cursor.char_offset
pub struct Lexer<'src> {
    pub src: Ghost<Seq<char>>,
    pub cursor: Cursor<'src>,
    pub cur_token_start: u32,
    pub toks: Vec<Tok>,
    pub lines: Vec<u32>,      // char offsets of line starts
    pub errors: Vec<(EK, u32)>,
}

pub open spec fn closes_at(s: Seq<char>, k: int) -> bool { s[k] == '*' && s[k + 1] == '/' }

pub open spec fn line_starts(p: Seq<char>) -> Seq<u32>
    decreases p.len()
{
    if p.len() == 0 { seq![0u32] } else {
        let r = line_starts(p.drop_last());
        if p.last() == '\n' { r.push(p.len() as u32) } else { r }
    }
}

impl<'src> Lexer<'src> {
    #[verifier::prophetic]
    pub open spec fn inv(&self) -> bool {
        &&& self.src@.len() < u32::MAX
        &&& self.cursor.char_offset <= self.src@.len()
        &&& self.cursor.rem() == self.src@.skip(self.cursor.char_offset as int)
        &&& self.cursor.chars.decrease().is_some()
        &&& self.cur_token_start <= self.cursor.char_offset
    }
    #[verifier::prophetic]
    pub open spec fn lines_ok(&self) -> bool {
        self.lines@ == line_starts(self.src@.take(self.cursor.char_offset as int))
    }
    pub open spec fn pos(&self) -> int { self.cursor.char_offset as int }

    pub fn add_line(&mut self)
        requires old(self).inv()
        ensures final(self).inv(), final(self).lines@ == old(self).lines@.push(old(self).cursor.char_offset),
            final(self).cursor == old(self).cursor, final(self).toks == old(self).toks, final(self).errors == old(self).errors,
            final(self).cur_token_start == old(self).cur_token_start, final(self).src == old(self).src,
    { self.lines.push(self.cursor.char_offset); }

    pub fn emit_token(&mut self, ch: Chan, tt: TT)
        requires old(self).inv()
        ensures final(self).inv(), final(self).toks@ == old(self).toks@.push(Tok { ch, tt, start: old(self).cur_token_start }),
            final(self).cursor == old(self).cursor, final(self).lines == old(self).lines, final(self).errors == old(self).errors,
            final(self).cur_token_start == old(self).cur_token_start, final(self).src == old(self).src,
    { self.toks.push(Tok { ch, tt, start: self.cur_token_start }); }

    pub fn emit_error(&mut self, e: EK)
        requires old(self).inv()
        ensures final(self).inv(), final(self).errors@ == old(self).errors@.push((e, old(self).cursor.char_offset)),
            final(self).cursor == old(self).cursor, final(self).lines == old(self).lines, final(self).toks == old(self).toks,
            final(self).cur_token_start == old(self).cur_token_start, final(self).src == old(self).src,
    { self.errors.push((e, self.cursor.char_offset)); }

    // ---- mod.rs lex_cstyle_comment, body verbatim (payload argument dropped in this probe) ----
    pub fn lex_cstyle_comment(&mut self)
        requires old(self).inv(), old(self).lines_ok(),
            old(self).cur_token_start == old(self).cursor.char_offset,
            old(self).cursor.rem().len() >= 2, old(self).cursor.rem()[0] == '/', old(self).cursor.rem()[1] == '*',
        ensures final(self).inv(), final(self).lines_ok(), final(self).src == old(self).src,
            // exactly one token: a comment, on the comment channel, starting where we started
            final(self).toks@ == old(self).toks@.push(Tok { ch: Chan::COMMENT, tt: TT::CStyleComment, start: old(self).cur_token_start }),
            // shape: consumed text t = src[p0..p1] starts with "/*"; either it ends with the FIRST "*/" after that
            // and no error is added, or it runs to the end of input and exactly UnterminatedComment is added there
            ({
                let p0 = old(self).pos(); let p1 = final(self).pos(); let s = old(self).src@;
                &&& p0 + 2 <= p1 <= s.len()
                &&& forall|k: int| p0 + 2 <= k < p1 - 2 ==> !#[trigger] closes_at(s, k)
                &&& (final(self).errors@ == old(self).errors@
                        && p1 >= p0 + 4 && s[p1 - 2] == '*' && s[p1 - 1] == '/')
                    || (final(self).errors@ == old(self).errors@.push((EK::UnterminatedComment, p1 as u32))
                        && p1 == s.len()
                        && forall|k: int| p0 + 2 <= k && k + 1 < p1 ==> !#[trigger] closes_at(s, k))
            }),
    {
        debug_assert!(self.cursor.peek() == Some('/'));
        debug_assert!(self.cursor.peek_next() == '*');

        // Eat the opening comment
        self.cursor.advance();
        self.cursor.advance();

        proof { lemma_ls_no_nl(self.src@, old(self).pos(), 2); }

        while let Some(c) = self.cursor.advance()
            invariant
                self.inv(), self.lines_ok(), self.src == old(self).src, self.toks == old(self).toks, self.errors == old(self).errors,
                self.cur_token_start == old(self).cur_token_start,
                old(self).pos() + 2 <= self.pos(),
                forall|k: int| old(self).pos() + 2 <= k < self.pos() && k + 1 < self.src@.len() ==> !#[trigger] closes_at(self.src@, k),
            ensures self.pos() == self.src@.len()
            decreases self.cursor.chars.decrease().unwrap_or(0)
        {
            proof {
                let p = self.pos() - 1;
                assert(self.src@.take(p + 1).drop_last() == self.src@.take(p));
            }
            if c == '*' && self.cursor.peek() == Some('/') {
                assert(self.cursor.rem()[0] == self.src@[self.pos()]);
                proof {
                    let p = self.pos() - 1;
                    assert(self.src@.take(p + 1).last() == '*');
                    assert(self.lines_ok());
                }
                self.cursor.advance();
                proof {
                    let p = self.pos() - 1;
                    assert(self.src@.take(p + 1).drop_last() == self.src@.take(p));
                    assert(self.src@.take(p + 1).last() == '/');
                }
                self.emit_token(
                    Chan::COMMENT,
                    TT::CStyleComment,
                );
                return;
            }

            if c == '\n' {
                self.add_line();
            }
        }
        // EOF reached without a closing comment
        // Emit an error token and return
        self.emit_token(
            Chan::COMMENT,
            TT::CStyleComment,
        );
        self.emit_error(EK::UnterminatedComment);
    }
}

pub proof fn lemma_ls_no_nl(s: Seq<char>, p: int, n: int)
    requires 0 <= p, 0 <= n, p + n <= s.len(), forall|k: int| p <= k < p + n ==> s[k] != '\n'
    ensures line_starts(s.take(p + n)) == line_starts(s.take(p))
    decreases n
{
    if n > 0 {
        lemma_ls_no_nl(s, p, n - 1);
        assert(s.take(p + n).drop_last() == s.take(p + n - 1));
    }
}
} // verus!
fn main() {}

use vstd::prelude::*;
verus! {
pub assume_specification[ <u32 as From<bool>>::from ](b: bool) -> (r: u32)
    ensures r == (if b { 1u32 } else { 0u32 });

pub struct ByteOffset(pub u32);
pub struct CharOffset(pub u32);
impl CharOffset {
    pub fn get(self) -> (r: u32) ensures r == self.0 { self.0 }
}
impl Clone for CharOffset { fn clone(&self) -> (r: Self) ensures r == *self { CharOffset(self.0) } }
impl Copy for CharOffset {}
pub struct TokenIdx(pub u32);
pub struct LineIdx(pub u32);
pub struct LineInfo { pub byte_offset: ByteOffset, pub start: CharOffset }
pub struct TokenInfo { pub byte_offset: ByteOffset, pub start: CharOffset, pub line: LineIdx }
pub struct TokenizedBuffer { pub line_infos: Vec<LineInfo>, pub token_infos: Vec<TokenInfo> }

pub struct ResolvedTokenInfo { pub token_index: u32, pub start: u32, pub stop: u32, pub line: u32, pub column: u32, pub end_line: u32, pub end_column: u32 }

impl TokenizedBuffer {
    pub open spec fn wf(&self) -> bool {
        let t = self.token_infos@; let l = self.line_infos@;
        &&& t.len() >= 1
        &&& t.len() <= u32::MAX
        &&& l.len() <= u32::MAX
        &&& forall|i: int| 0 <= i < t.len() ==> (#[trigger] t[i]).line.0 < l.len()
        &&& forall|i: int| 0 <= i < t.len() ==> l[(#[trigger] t[i]).line.0 as int].byte_offset.0 <= t[i].byte_offset.0
        &&& forall|i: int| 0 <= i < t.len() ==> l[(#[trigger] t[i]).line.0 as int].start.0 <= t[i].start.0
        &&& forall|i: int, j: int| 0 <= i <= j < t.len() ==> (#[trigger] t[i]).byte_offset.0 <= (#[trigger] t[j]).byte_offset.0
        &&& forall|i: int, j: int| 0 <= i <= j < t.len() ==> (#[trigger] t[i]).line.0 <= (#[trigger] t[j]).line.0
        &&& forall|i: int, j: int| 0 <= i <= j < l.len() ==> (#[trigger] l[i]).start.0 <= (#[trigger] l[j]).start.0
    }
    pub open spec fn spec_end_line_idx(&self, i: int) -> int {
        if i + 1 >= self.token_infos@.len() { self.token_infos@[i].line.0 as int } else {
            let next = self.token_infos@[i + 1];
            let at_line_start = next.byte_offset.0 == self.line_infos@[next.line.0 as int].byte_offset.0;
            let empty = self.token_infos@[i].byte_offset.0 == next.byte_offset.0;
            if at_line_start && !empty { next.line.0 - 1 } else { next.line.0 as int }
        }
    }
    pub open spec fn spec_resolved(&self, i: int) -> ResolvedTokenInfo {
        let t = self.token_infos@; let l = self.line_infos@;
        let stop = if i + 1 < t.len() { t[i + 1].start.0 } else { t[i].start.0 };
        let el = self.spec_end_line_idx(i);
        ResolvedTokenInfo {
            token_index: i as u32, start: t[i].start.0, stop: stop,
            line: (t[i].line.0 + 1) as u32, column: (t[i].start.0 - l[t[i].line.0 as int].start.0) as u32,
            end_line: (el + 1) as u32, end_column: (stop - l[el].start.0) as u32,
        }
    }

    pub fn into_resolved_token_vec(&self) -> (vec: Vec<ResolvedTokenInfo>)
        requires self.wf()
        ensures vec@.len() == self.token_infos@.len(),
            forall|i: int| 0 <= i < vec@.len() ==> #[trigger] vec@[i] == self.spec_resolved(i),
    {
        let mut tok_idx = 0u32;
        let mut cur_tok = &self.token_infos[0];
        let tok_count = self.token_infos.len();
        let mut vec = Vec::with_capacity(tok_count);

        if tok_count > 1 {
            let ghost full = self.token_infos@;
            for next_tok in it: &self.token_infos[1..tok_count]
                invariant
                    self.wf(), full == self.token_infos@, tok_count == full.len(),
                    it.seq().len() == tok_count - 1, forall|k: int| 0 <= k < it.seq().len() ==> *(#[trigger] it.seq()[k]) == full[k + 1],
                    tok_idx == it.index@, vec@.len() == it.index@,
                    *cur_tok == full[it.index@ as int],
                    forall|i: int| 0 <= i < vec@.len() ==> #[trigger] vec@[i] == self.spec_resolved(i),
            {
                assert(*next_tok == full[it.index@ + 1]);
                let next_tok_line_info = &self.line_infos[next_tok.line.0 as usize];
                proof {
                    let i = it.index@;
                    assert(full[i].line.0 <= full[i + 1].line.0);
                    assert(self.line_infos@[full[i].line.0 as int].byte_offset.0 <= full[i].byte_offset.0);
                    assert(self.line_infos@[full[i + 1].line.0 as int].start.0 <= full[i + 1].start.0);
                    assert(self.line_infos@[full[i].line.0 as int].start.0 <= full[i].start.0);
                    assert(*cur_tok == full[i]);
                    assert(*next_tok_line_info == self.line_infos@[full[i + 1].line.0 as int]);
                    if next_tok.byte_offset.0 == next_tok_line_info.byte_offset.0 && cur_tok.byte_offset.0 < next_tok.byte_offset.0 {
                        assert(full[i].line.0 != full[i + 1].line.0);
                        assert(next_tok.line.0 >= 1);
                    }
                }
                let cur_tok_end_line_idx = next_tok.line.0
                    - u32::from(
                        next_tok.byte_offset.0 == next_tok_line_info.byte_offset.0
                            && cur_tok.byte_offset.0 < next_tok.byte_offset.0,
                    );
                vec.push(ResolvedTokenInfo {
                    token_index: tok_idx,
                    start: cur_tok.start.get(),
                    stop: next_tok.start.get(),
                    line: cur_tok.line.0 + 1,
                    column: cur_tok.start.get()
                        - self.line_infos[cur_tok.line.0 as usize].start.get(),
                    end_line: cur_tok_end_line_idx + 1,
                    end_column: next_tok.start.get()
                        - self.line_infos[cur_tok_end_line_idx as usize].start.get(),
                });
                proof {
                    let i = it.index@;
                    assert(vec@[i] == self.spec_resolved(i));
                }
                cur_tok = next_tok;
                tok_idx += 1;
            }
        }
        vec.push(ResolvedTokenInfo {
            token_index: tok_idx,
            start: cur_tok.start.get(),
            stop: cur_tok.start.get(),
            line: cur_tok.line.0 + 1,
            column: cur_tok.start.get() - self.line_infos[cur_tok.line.0 as usize].start.get(),
            end_line: cur_tok.line.0 + 1,
            end_column: cur_tok.start.get() - self.line_infos[cur_tok.line.0 as usize].start.get(),
        });
        vec
    }
}
} // verus!
fn main() {}

use vstd::prelude::*;
use vstd::utf8::*;
verus! {
fn t(s: &str) -> (r: usize)
    requires encode_utf8(s@).len() <= usize::MAX
    ensures r == encode_utf8(s@).len()
{ s.len() }

proof fn add(a: Seq<char>, b: Seq<char>)
    ensures encode_utf8(a + b).len() == encode_utf8(a).len() + encode_utf8(b).len()
{
    encode_utf8_concat(a, b);
}
proof fn one(c: char)
    ensures 1 <= encode_utf8(seq![c]).len() <= 4
{
    broadcast use group_utf8_lib;
}
} // verus!
fn main() {}

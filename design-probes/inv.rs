use vstd::prelude::*;
use vstd::std_specs::iter::IteratorSpec;
use vstd::utf8::*;
use std::str::Chars;
verus! {
pub assume_specification<'a>[ <Chars<'a> as Clone>::clone ](c: &Chars<'a>) -> (r: Chars<'a>)
    ensures r.remaining() == c.remaining(), r.decrease() == c.decrease();
pub assume_specification<'a>[ Chars::<'a>::as_str ](c: &Chars<'a>) -> (r: &'a str)
    ensures r@ == c.remaining();

pub open spec fn blen(s: Seq<char>) -> nat { encode_utf8(s).len() }

// ---------------- cursor.rs (verbatim bodies) ----------------
pub struct Cursor<'a> { pub chars: Chars<'a>, pub char_offset: u32 }
impl<'a> Cursor<'a> {
    #[verifier::prophetic]
    pub open spec fn rem(&self) -> Seq<char> { self.chars.remaining() }

    pub fn remaining_len(&self) -> (r: u32)
        requires blen(self.rem()) <= u32::MAX
        ensures r == blen(self.rem())
    {
        self.chars.as_str().len() as u32
    }
    pub fn char_offset(&self) -> (r: u32) ensures r == self.char_offset { self.char_offset }
}
impl<'a> Clone for Cursor<'a> {
    fn clone(&self) -> (r: Self) ensures r.rem() == self.rem(), r.char_offset == self.char_offset {
        Cursor { chars: self.chars.clone(), char_offset: self.char_offset }
    }
}

// ---------------- text.rs / buffer.rs (reduced) ----------------
#[derive(Clone, Copy)] pub struct ByteOffset(pub u32);
impl ByteOffset { pub fn new(val: u32) -> (r: Self) ensures r.0 == val { ByteOffset(val) } }
#[derive(Clone, Copy)] pub struct CharOffset(pub u32);
impl CharOffset { pub fn new(val: u32) -> (r: Self) ensures r.0 == val { CharOffset(val) } }
pub struct TokenInfo { pub byte_offset: ByteOffset, pub start: CharOffset }
pub struct WorkBuf { pub token_infos: Vec<TokenInfo> }
#[derive(Clone, Copy)] pub struct WorkBufferCheckpoint { pub token_count: usize }
impl WorkBuf {
    pub fn add_token(&mut self, byte_offset: ByteOffset, start: CharOffset)
        ensures final(self).token_infos@ == old(self).token_infos@.push(TokenInfo { byte_offset, start })
    { self.token_infos.push(TokenInfo { byte_offset, start }); }
    pub fn checkpoint(&self) -> (r: WorkBufferCheckpoint) ensures r.token_count == self.token_infos@.len()
    { WorkBufferCheckpoint { token_count: self.token_infos.len() } }
    pub fn rollback(&mut self, checkpoint: WorkBufferCheckpoint)
        ensures final(self).token_infos@ == (if checkpoint.token_count <= old(self).token_infos@.len() { old(self).token_infos@.take(checkpoint.token_count as int) } else { old(self).token_infos@ })
    { self.token_infos.truncate(checkpoint.token_count); }
}

// ---------------- mod.rs primitives (verbatim bodies, reduced struct) ----------------
pub struct LexerCheckpoint<'src> {
    pub cursor: Cursor<'src>,
    pub cur_token_byte_offset: ByteOffset,
    pub cur_token_start: CharOffset,
    pub mode_stack_len: usize,
    pub buffer_checkpoint: WorkBufferCheckpoint,
}
pub struct Lexer<'src> {
    pub source: &'src str,
    pub source_len: u32,
    pub buffer: WorkBuf,
    pub cursor: Cursor<'src>,
    pub cur_token_byte_offset: ByteOffset,
    pub cur_token_start: CharOffset,
    pub mode_stack: Vec<u8>,
    pub checkpoint: Option<LexerCheckpoint<'src>>,
}

pub open spec fn is_pair(src: Seq<char>, b: int, c: int) -> bool {
    0 <= c <= src.len() && b == blen(src.take(c))
}
#[verifier::prophetic]
pub open spec fn cursor_ok(src: Seq<char>, cur: &Cursor) -> bool {
    &&& cur.char_offset <= src.len()
    &&& cur.rem() == src.skip(cur.char_offset as int)
}
pub open spec fn toks_ok(src: Seq<char>, toks: Seq<TokenInfo>, upto_b: int) -> bool {
    &&& forall|i: int| 0 <= i < toks.len() ==> is_pair(src, (#[trigger] toks[i]).byte_offset.0 as int, toks[i].start.0 as int)
    &&& forall|i: int, j: int| 0 <= i <= j < toks.len() ==> (#[trigger] toks[i]).byte_offset.0 <= (#[trigger] toks[j]).byte_offset.0
    &&& forall|i: int| 0 <= i < toks.len() ==> (#[trigger] toks[i]).byte_offset.0 <= upto_b
}

impl<'src> Lexer<'src> {
    #[verifier::prophetic]
    pub open spec fn inv(&self) -> bool {
        let src = self.source@;
        &&& self.source_len == blen(src)
        &&& cursor_ok(src, &self.cursor)
        &&& is_pair(src, self.cur_token_byte_offset.0 as int, self.cur_token_start.0 as int)
        &&& self.cur_token_start.0 <= self.cursor.char_offset
        &&& toks_ok(src, self.buffer.token_infos@, self.cur_token_byte_offset.0 as int)
        &&& match self.checkpoint {
            None => true,
            Some(c) => {
                &&& cursor_ok(src, &c.cursor)
                &&& c.cursor.char_offset <= self.cursor.char_offset
                &&& is_pair(src, c.cur_token_byte_offset.0 as int, c.cur_token_start.0 as int)
                &&& c.cur_token_start.0 <= c.cursor.char_offset
                &&& c.buffer_checkpoint.token_count <= self.buffer.token_infos@.len()
                &&& toks_ok(src, self.buffer.token_infos@.take(c.buffer_checkpoint.token_count as int), c.cur_token_byte_offset.0 as int)
            }
        }
    }

    pub fn cur_byte_offset(&self) -> (r: ByteOffset)
        requires self.inv()
        ensures is_pair(self.source@, r.0 as int, self.cursor.char_offset as int)
    {
        proof { lemma_split(self.source@, self.cursor.char_offset as int); }
        ByteOffset::new(self.source_len - self.cursor.remaining_len())
    }
    pub fn cur_char_offset(&self) -> (r: CharOffset) ensures r.0 == self.cursor.char_offset
    { CharOffset::new(self.cursor.char_offset()) }

    pub fn start_token(&mut self)
        requires old(self).inv()
        ensures final(self).inv(), final(self).cur_token_start.0 == old(self).cursor.char_offset,
            final(self).buffer == old(self).buffer, final(self).cursor == old(self).cursor,
    {
        proof { lemma_mono(self.source@, self.cur_token_start.0 as int, self.cursor.char_offset as int); }
        self.cur_token_byte_offset = self.cur_byte_offset();
        self.cur_token_start = self.cur_char_offset();
    }

    pub fn emit_token(&mut self)
        requires old(self).inv()
        ensures final(self).inv(), final(self).buffer.token_infos@.len() == old(self).buffer.token_infos@.len() + 1,
    {
        self.buffer.add_token(self.cur_token_byte_offset, self.cur_token_start);
        proof {
            if self.checkpoint.is_some() {
                let n = self.checkpoint.unwrap().buffer_checkpoint.token_count as int;
                assert(self.buffer.token_infos@.take(n) == old(self).buffer.token_infos@.take(n));
            }
        }
    }

    pub fn checkpoint(&mut self)
        requires old(self).inv()
        ensures final(self).inv(), final(self).checkpoint.is_some()
    {
        self.checkpoint = Some(LexerCheckpoint {
            cursor: self.cursor.clone(),
            cur_token_byte_offset: self.cur_token_byte_offset,
            cur_token_start: self.cur_token_start,
            mode_stack_len: self.mode_stack.len(),
            buffer_checkpoint: self.buffer.checkpoint(),
        });
    }

    pub fn rollback(&mut self)
        requires old(self).inv(), old(self).checkpoint.is_some()
        ensures final(self).inv(), final(self).checkpoint.is_none(),
            final(self).buffer.token_infos@ == old(self).buffer.token_infos@.take(old(self).checkpoint.unwrap().buffer_checkpoint.token_count as int),
            final(self).cursor.char_offset == old(self).checkpoint.unwrap().cursor.char_offset,
    {
        if let Some(checkpoint) = self.checkpoint.take() {
            self.cursor = checkpoint.cursor;
            self.cur_token_byte_offset = checkpoint.cur_token_byte_offset;
            self.cur_token_start = checkpoint.cur_token_start;
            self.mode_stack.truncate(checkpoint.mode_stack_len);
            self.buffer.rollback(checkpoint.buffer_checkpoint);
        } else {
        }
    }
}

pub proof fn lemma_split(src: Seq<char>, k: int)
    requires 0 <= k <= src.len()
    ensures blen(src) == blen(src.take(k)) + blen(src.skip(k))
{
    assert(src == src.take(k) + src.skip(k));
    encode_utf8_concat(src.take(k), src.skip(k));
}
pub proof fn lemma_mono(src: Seq<char>, a: int, b: int)
    requires 0 <= a <= b <= src.len()
    ensures blen(src.take(a)) <= blen(src.take(b))
{
    assert(src.take(b) == src.take(a) + src.take(b).skip(a));
    encode_utf8_concat(src.take(a), src.take(b).skip(a));
}
} // verus!
fn main() {}

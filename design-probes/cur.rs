use vstd::prelude::*;
use vstd::std_specs::iter::IteratorSpec;
use std::str::Chars;
verus! {

pub assume_specification<'a>[ <Chars<'a> as Clone>::clone ](c: &Chars<'a>) -> (r: Chars<'a>)
    ensures r.remaining() == c.remaining();

pub struct Cursor<'a> {
    pub chars: Chars<'a>,
    pub char_offset: u32,
    pub prev_char: char,
}

pub const EOF_CHAR: char = '\0';

impl<'a> Cursor<'a> {
    #[verifier::prophetic]
    pub open spec fn rem(&self) -> Seq<char> { self.chars.remaining() }

    pub fn new(input: &'a str) -> (r: Cursor<'a>)
        ensures r.rem() == input@, r.char_offset == 0
    {
        Cursor {
            chars: input.chars(),
            char_offset: 0,
            prev_char: EOF_CHAR,
        }
    }

    pub fn peek(&self) -> (r: Option<char>)
        ensures r == (if self.rem().len() > 0 { Some(self.rem()[0]) } else { None })
    {
        self.chars.clone().next()
    }

    pub fn peek_next(&self) -> (r: char)
        ensures r == (if self.rem().len() > 1 { self.rem()[1] } else { EOF_CHAR })
    {
        let mut iter = self.chars.clone();
        iter.next();
        iter.next().unwrap_or(EOF_CHAR)
    }

    pub fn advance(&mut self) -> (r: Option<char>)
        requires old(self).char_offset < u32::MAX
        ensures
            old(self).rem().len() == 0 ==> r.is_none() && final(self).rem() == old(self).rem() && final(self).char_offset == old(self).char_offset,
            old(self).rem().len() > 0 ==> r == Some(old(self).rem()[0]) && final(self).rem() == old(self).rem().skip(1) && final(self).char_offset == old(self).char_offset + 1,
    {
        let c = self.chars.next()?;
        {
            self.prev_char = c;
        }
        self.char_offset += 1;
        Some(c)
    }

    // `if true {..} else if ..` stands for cfg!(debug_assertions): both branches are checked
    pub fn advance_by(&mut self, n: u32)
        requires n > 0, old(self).char_offset as int + n as int <= u32::MAX as int
        ensures
            ({ let k = if (n as int) <= old(self).rem().len() { n as int } else { old(self).rem().len() as int };
               final(self).rem() == old(self).rem().skip(k) && final(self).char_offset as int == old(self).char_offset as int + k })
    {
        debug_assert!(n > 0);
        for i in 0..n
            invariant
                self.rem() == old(self).rem().skip(i as int),
                i as int <= old(self).rem().len(),
                self.char_offset == old(self).char_offset,
                old(self).char_offset as int + n as int <= u32::MAX as int,
        {
            if true {
                if let Some(c) = self.chars.next() {
                    self.prev_char = c;
                } else {
                    self.char_offset += i;
                    return;
                }
            } else if self.chars.next().is_none() {
                self.char_offset += i;
                return;
            }
        }
        self.char_offset += n;
    }

    pub fn eat_char(&mut self, c: char) -> (r: bool)
        requires old(self).char_offset < u32::MAX
        ensures r == (old(self).rem().len() > 0 && old(self).rem()[0] == c),
            r ==> final(self).rem() == old(self).rem().skip(1) && final(self).char_offset == old(self).char_offset + 1,
            !r ==> final(self).rem() == old(self).rem() && final(self).char_offset == old(self).char_offset,
    {
        if self.peek() == Some(c) {
            self.advance();
            true
        } else {
            false
        }
    }

    pub fn char_offset(&self) -> (r: u32) ensures r == self.char_offset {
        self.char_offset
    }
}

} // verus!
fn main() {}

use vstd::prelude::*;
use vstd::std_specs::iter::IteratorSpec;
use std::str::Chars;
verus! {
pub assume_specification<'a>[ <Chars<'a> as Clone>::clone ](c: &Chars<'a>) -> (r: Chars<'a>)
    ensures r.remaining() == c.remaining(), r.decrease() == c.decrease(), r.obeys_prophetic_iter_laws() == c.obeys_prophetic_iter_laws();

pub struct Cursor<'a> { pub chars: Chars<'a>, pub char_offset: u32 }
impl<'a> Cursor<'a> {
    #[verifier::prophetic]
    pub open spec fn rem(&self) -> Seq<char> { self.chars.remaining() }
    pub fn peek(&self) -> (r: Option<char>)
        ensures r == (if self.rem().len() > 0 { Some(self.rem()[0]) } else { None })
    { self.chars.clone().next() }
    pub fn advance(&mut self) -> (r: Option<char>)
        requires old(self).char_offset < u32::MAX
        ensures
            old(self).chars.decrease().is_some() == final(self).chars.decrease().is_some(),
            old(self).rem().len() > 0 && old(self).chars.decrease().is_some() ==> final(self).chars.decrease().unwrap() < old(self).chars.decrease().unwrap(),
            old(self).rem().len() == 0 ==> r.is_none() && final(self).rem() == old(self).rem() && final(self).char_offset == old(self).char_offset,
            old(self).rem().len() > 0 ==> r == Some(old(self).rem()[0]) && final(self).rem() == old(self).rem().skip(1) && final(self).char_offset == old(self).char_offset + 1,
    {
        let c = self.chars.next()?;
        self.char_offset += 1;
        Some(c)
    }
    pub fn eat_while(&mut self, mut predicate: impl FnMut(char) -> bool)
        requires forall|c: char| predicate.requires((c,)), old(self).chars.decrease().is_some(), old(self).char_offset as int + old(self).rem().len() <= u32::MAX
        ensures final(self).rem().len() <= old(self).rem().len(),
    {
        while let Some(c) = self.peek()
            invariant self.rem().len() <= old(self).rem().len(),
              self.char_offset as int + self.rem().len() == old(self).char_offset as int + old(self).rem().len(),
              old(self).char_offset as int + old(self).rem().len() <= u32::MAX,
              forall|c: char| predicate.requires((c,)), self.chars.decrease().is_some(),
            decreases self.chars.decrease().unwrap_or(0)
        {
            if !predicate(c) {
                return;
            }
            self.advance();
        }
    }
}
fn user(cur: &mut Cursor)
  requires old(cur).chars.decrease().is_some(), old(cur).char_offset as int + old(cur).rem().len() <= u32::MAX
{
    cur.eat_while(|c: char| {
        c == 'a'
    });
}
} // verus!
fn main() {}

use std::collections::{HashMap, HashSet};
use std::fmt::Write as _;
use std::ops::Range;
use syn::spanned::Spanned;
use syn::visit::{self, Visit};
use syn::{Attribute, Expr, Stmt};

// ------------------------------------------------------------------------------------------
// configuration vector (R2)
// ------------------------------------------------------------------------------------------
pub struct Cfg {
    pub on: HashSet<String>,
}

const KNOWN_ATOMS: &[&str] = &[
    "debug_assertions",
    "rustc_nightly",
    "test",
    "kani",
    "sas_lexer_verif",
    "feature=macro_sep",
    "feature=opti_stats",
    "feature=serde",
];

enum Pred {
    Atom(String),
    Not(Box<Pred>),
    Any(Vec<Pred>),
    All(Vec<Pred>),
}

impl syn::parse::Parse for Pred {
    fn parse(input: syn::parse::ParseStream) -> syn::Result<Self> {
        let id: syn::Ident = input.parse()?;
        let name = id.to_string();
        if input.peek(syn::token::Paren) {
            let content;
            syn::parenthesized!(content in input);
            let items: syn::punctuated::Punctuated<Pred, syn::Token![,]> =
                content.parse_terminated(Pred::parse, syn::Token![,])?;
            let v: Vec<Pred> = items.into_iter().collect();
            return match name.as_str() {
                "not" => {
                    let mut v = v;
                    if v.len() != 1 {
                        return Err(syn::Error::new(id.span(), "not() arity"));
                    }
                    Ok(Pred::Not(Box::new(v.remove(0))))
                }
                "any" => Ok(Pred::Any(v)),
                "all" => Ok(Pred::All(v)),
                _ => Err(syn::Error::new(id.span(), "unknown cfg combinator")),
            };
        }
        if input.peek(syn::Token![=]) {
            let _: syn::Token![=] = input.parse()?;
            let l: syn::LitStr = input.parse()?;
            return Ok(Pred::Atom(format!("{}={}", name, l.value())));
        }
        Ok(Pred::Atom(name))
    }
}

impl Cfg {
    fn eval(&self, p: &Pred) -> Result<bool, String> {
        Ok(match p {
            Pred::Atom(a) => {
                if !KNOWN_ATOMS.contains(&a.as_str()) {
                    return Err(format!("unsupported cfg atom `{a}`"));
                }
                self.on.contains(a)
            }
            Pred::Not(x) => !self.eval(x)?,
            Pred::Any(v) => {
                let mut r = false;
                for x in v {
                    r |= self.eval(x)?;
                }
                r
            }
            Pred::All(v) => {
                let mut r = true;
                for x in v {
                    r &= self.eval(x)?;
                }
                r
            }
        })
    }
    fn eval_tokens(&self, ts: proc_macro2::TokenStream) -> Result<bool, String> {
        let p: Pred = syn::parse2(ts).map_err(|e| format!("cfg parse: {e}"))?;
        self.eval(&p)
    }
}

// ------------------------------------------------------------------------------------------
// text edits
// ------------------------------------------------------------------------------------------
#[derive(Debug, Clone)]
struct Edit {
    start: usize,
    end: usize,
    rep: String,
}

fn apply_edits(text: &str, mut edits: Vec<Edit>) -> String {
    // outer (longer) edits first at equal start; nested edits inside an applied edit are skipped
    edits.sort_by(|a, b| a.start.cmp(&b.start).then(b.end.cmp(&a.end)));
    let mut out = String::with_capacity(text.len() + 256);
    let mut pos = 0usize;
    for e in edits {
        if e.start < pos {
            // nested in a previous replacement (e.g. inside a deleted cfg'd node)
            continue;
        }
        out.push_str(&text[pos..e.start]);
        out.push_str(&e.rep);
        pos = e.end;
    }
    out.push_str(&text[pos..]);
    out
}

fn br<T: Spanned>(t: &T) -> Range<usize> {
    t.span().byte_range()
}

/// extend `end` over whitespace and one trailing comma
fn eat_comma(text: &str, end: usize) -> usize {
    let b = text.as_bytes();
    let mut i = end;
    while i < b.len() && (b[i] as char).is_whitespace() {
        i += 1;
    }
    if i < b.len() && b[i] == b',' {
        i + 1
    } else {
        end
    }
}

// ------------------------------------------------------------------------------------------
// pass 1: R1 (attributes), R2 (cfg), R3 (pub), R6 (console output)
// ------------------------------------------------------------------------------------------
pub struct Counters {
    pub r: HashMap<&'static str, usize>,
}
impl Counters {
    fn bump(&mut self, k: &'static str) {
        *self.r.entry(k).or_insert(0) += 1;
    }
}

struct Clean<'a> {
    cfg: &'a Cfg,
    text: &'a str,
    edits: Vec<Edit>,
    err: Option<String>,
    derive_override: Option<String>,
    keeps_default: bool,
    cnt: &'a mut Counters,
}

const DROP_ATTRS: &[&str] = &[
    "allow", "inline", "must_use", "repr", "warn", "deny", "expect", "strum", "keyword", "kw",
    "kwm", "non_exhaustive", "serde", "kw_map_name", "kwm_map_name", "subset",
];
const KEEP_DERIVES: &[&str] = &[
    "Clone", "Copy", "PartialEq", "Eq", "PartialOrd", "Ord", "Debug", "Default",
];

impl<'a> Clean<'a> {
    fn fail(&mut self, m: String) {
        if self.err.is_none() {
            self.err = Some(m);
        }
    }
    fn del(&mut self, r: Range<usize>) {
        self.edits.push(Edit { start: r.start, end: r.end, rep: String::new() });
    }
    /// returns false when the node carrying these attributes is configured out (and deleted)
    fn attrs(&mut self, attrs: &[Attribute], node: Range<usize>, comma: bool) -> bool {
        for a in attrs {
            let name = a.path().segments.last().map(|s| s.ident.to_string()).unwrap_or_default();
            match name.as_str() {
                "cfg" => {
                    let ts = match &a.meta {
                        syn::Meta::List(l) => l.tokens.clone(),
                        _ => {
                            self.fail("malformed cfg".into());
                            return true;
                        }
                    };
                    match self.cfg.eval_tokens(ts) {
                        Ok(true) => {
                            self.cnt.bump("R2_cfg_on");
                            self.del(br(a));
                        }
                        Ok(false) => {
                            self.cnt.bump("R2_cfg_off");
                            let end = if comma { eat_comma(self.text, node.end) } else { node.end };
                            self.del(node.start..end);
                            return false;
                        }
                        Err(e) => {
                            self.fail(e);
                            return true;
                        }
                    }
                }
                "cfg_attr" => {
                    // cfg_attr(pred, attrs...): only the `pred == false` case is supported (serde, test)
                    let ts = match &a.meta {
                        syn::Meta::List(l) => l.tokens.clone(),
                        _ => {
                            self.fail("malformed cfg_attr".into());
                            return true;
                        }
                    };
                    let mut pred = proc_macro2::TokenStream::new();
                    for t in ts {
                        if let proc_macro2::TokenTree::Punct(p) = &t {
                            if p.as_char() == ',' {
                                break;
                            }
                        }
                        pred.extend(std::iter::once(t));
                    }
                    match self.cfg.eval_tokens(pred) {
                        Ok(false) => {
                            self.cnt.bump("R1_attr");
                            self.del(br(a));
                        }
                        Ok(true) => self.fail(format!("cfg_attr with true predicate unsupported: {}", &self.text[br(a)])),
                        Err(e) => self.fail(e),
                    }
                }
                "doc" => {}
                "default" => {
                    // `#[default]` variant marker: only meaningful while Default is still derived
                    if !self.keeps_default {
                        self.cnt.bump("R1_attr");
                        self.del(br(a));
                    }
                }
                "derive" => {
                    self.cnt.bump("R1_derive");
                    let list = if let Some(d) = &self.derive_override {
                        d.clone()
                    } else {
                        let mut keep = Vec::new();
                        if let syn::Meta::List(l) = &a.meta {
                            let s = l.tokens.to_string();
                            for part in s.split(',') {
                                let p = part.trim().rsplit("::").next().unwrap_or("").trim().to_string();
                                if KEEP_DERIVES.contains(&p.as_str()) {
                                    keep.push(p);
                                }
                            }
                        }
                        if keep.iter().any(|k| k == "Clone") && !keep.iter().any(|k| k == "Copy") {
                            keep.retain(|k| k != "Clone");
                        }
                        keep.join(", ")
                    };
                    self.keeps_default = list.split(',').any(|x| x.trim() == "Default");
                    let r = br(a);
                    let rep = if list.is_empty() { String::new() } else { format!("#[derive({list})]") };
                    self.edits.push(Edit { start: r.start, end: r.end, rep });
                }
                n if DROP_ATTRS.contains(&n) => {
                    self.cnt.bump("R1_attr");
                    self.del(br(a));
                }
                other => self.fail(format!("unsupported attribute `{other}`")),
            }
        }
        true
    }

    fn make_pub(&mut self, vis: &syn::Visibility, insert_at: usize) {
        match vis {
            syn::Visibility::Public(_) => {}
            syn::Visibility::Restricted(r) => {
                let rr = br(r);
                self.cnt.bump("R3_pub");
                self.edits.push(Edit { start: rr.start, end: rr.end, rep: "pub".into() });
            }
            syn::Visibility::Inherited => {
                self.cnt.bump("R3_pub");
                self.edits.push(Edit { start: insert_at, end: insert_at, rep: "pub ".into() });
            }
        }
    }
}

fn expr_attrs(e: &Expr) -> &[Attribute] {
    macro_rules! m { ($($v:ident),*) => { match e { $(Expr::$v(x) => &x.attrs,)* _ => &[] } } }
    m!(
        Array, Assign, Async, Await, Binary, Block, Break, Call, Cast, Closure, Const, Continue,
        Field, ForLoop, Group, If, Index, Infer, Let, Lit, Loop, Macro, Match, MethodCall, Paren,
        Path, Range, Reference, Repeat, Return, Struct, Try, TryBlock, Tuple, Unary, Unsafe, While,
        Yield
    )
}

fn mac_name(m: &syn::Macro) -> String {
    m.path.segments.last().map(|s| s.ident.to_string()).unwrap_or_default()
}

impl<'a, 'ast> Visit<'ast> for Clean<'a> {
    fn visit_field(&mut self, f: &'ast syn::Field) {
        if !self.attrs(&f.attrs, br(f), true) {
            return;
        }
        if let Some(id) = &f.ident {
            self.make_pub(&f.vis, br(id).start);
        } else {
            self.make_pub(&f.vis, br(&f.ty).start);
        }
        visit::visit_field(self, f);
    }
    fn visit_variant(&mut self, v: &'ast syn::Variant) {
        if !self.attrs(&v.attrs, br(v), true) {
            return;
        }
        // fields of enum variants have no visibility: do not descend through visit_field
        if let Some((_, e)) = &v.discriminant {
            self.visit_expr(e);
        }
        for f in &v.fields {
            self.attrs(&f.attrs, br(f), true);
        }
    }
    fn visit_field_value(&mut self, f: &'ast syn::FieldValue) {
        if !self.attrs(&f.attrs, br(f), true) {
            return;
        }
        visit::visit_field_value(self, f);
    }
    fn visit_arm(&mut self, a: &'ast syn::Arm) {
        if !self.attrs(&a.attrs, br(a), true) {
            return;
        }
        visit::visit_arm(self, a);
    }
    fn visit_stmt(&mut self, s: &'ast Stmt) {
        match s {
            Stmt::Local(l) => {
                if !self.attrs(&l.attrs, br(s), false) {
                    return;
                }
            }
            Stmt::Expr(e, _) => {
                let a = expr_attrs(e);
                if !a.is_empty() && !self.attrs(a, br(s), false) {
                    return;
                }
                // R6: console dump helper
                if let Expr::MethodCall(mc) = e {
                    if mc.method == "dump_lexer_state_to_console" {
                        self.cnt.bump("R6_console");
                        self.del(br(s));
                        return;
                    }
                }
                // attrs already handled for this expr: visit children without re-processing
                self.visit_expr_children(e);
                return;
            }
            Stmt::Macro(m) => {
                if !self.attrs(&m.attrs, br(s), false) {
                    return;
                }
                let n = mac_name(&m.mac);
                match n.as_str() {
                    "println" | "print" | "eprintln" | "eprint" | "dbg" => {
                        self.cnt.bump("R6_console");
                        self.del(br(s));
                        return;
                    }
                    "debug_assert" | "debug_assert_eq" | "debug_assert_ne" | "assert" => {
                        self.assert_macro(&n, &m.mac, br(s), true);
                        return;
                    }
                    _ => {}
                }
            }
            Stmt::Item(i) => {
                // nested items: only cfg handling of their attributes is needed
                let _ = i;
            }
        }
        visit::visit_stmt(self, s);
    }
    fn visit_expr(&mut self, e: &'ast Expr) {
        let a = expr_attrs(e);
        if !a.is_empty() && !self.attrs(a, br(e), false) {
            return;
        }
        self.visit_expr_children(e);
    }
    fn visit_impl_item_fn(&mut self, f: &'ast syn::ImplItemFn) {
        if !self.attrs(&f.attrs, br(f), false) {
            return;
        }
        visit::visit_impl_item_fn(self, f);
    }
    fn visit_item_fn(&mut self, f: &'ast syn::ItemFn) {
        if !self.attrs(&f.attrs, br(f), false) {
            return;
        }
        visit::visit_item_fn(self, f);
    }
    fn visit_item_struct(&mut self, s: &'ast syn::ItemStruct) {
        if !self.attrs(&s.attrs, br(s), false) {
            return;
        }
        visit::visit_item_struct(self, s);
    }
    fn visit_item_enum(&mut self, s: &'ast syn::ItemEnum) {
        if !self.attrs(&s.attrs, br(s), false) {
            return;
        }
        visit::visit_item_enum(self, s);
    }
    fn visit_item_const(&mut self, s: &'ast syn::ItemConst) {
        if !self.attrs(&s.attrs, br(s), false) {
            return;
        }
        visit::visit_item_const(self, s);
    }
    fn visit_item_type(&mut self, s: &'ast syn::ItemType) {
        if !self.attrs(&s.attrs, br(s), false) {
            return;
        }
        visit::visit_item_type(self, s);
    }
}

impl<'a> Clean<'a> {
    fn visit_expr_children(&mut self, e: &Expr) {
        if let Expr::Macro(m) = e {
            let n = mac_name(&m.mac);
            match n.as_str() {
                "cfg" => match self.cfg.eval_tokens(m.mac.tokens.clone()) {
                    Ok(v) => {
                        self.cnt.bump("R2_cfg_macro");
                        let r = br(e);
                        self.edits.push(Edit { start: r.start, end: r.end, rep: (if v { "true" } else { "false" }).into() });
                    }
                    Err(er) => self.fail(er),
                },
                "debug_assert" | "debug_assert_eq" | "debug_assert_ne" | "assert" => {
                    self.assert_macro(&n, &m.mac, br(e), false);
                }
                "println" | "print" | "eprintln" | "eprint" | "dbg" => {
                    self.fail("console macro in expression position".into());
                }
                _ => {}
            }
            return;
        }
        // default traversal of the children of `e` (attributes of `e` itself were handled)
        macro_rules! go { ($f:ident, $x:expr) => { visit::$f(self, $x) } }
        match e {
            Expr::Array(x) => go!(visit_expr_array, x),
            Expr::Assign(x) => go!(visit_expr_assign, x),
            Expr::Async(x) => go!(visit_expr_async, x),
            Expr::Await(x) => go!(visit_expr_await, x),
            Expr::Binary(x) => go!(visit_expr_binary, x),
            Expr::Block(x) => go!(visit_expr_block, x),
            Expr::Break(x) => go!(visit_expr_break, x),
            Expr::Call(x) => go!(visit_expr_call, x),
            Expr::Cast(x) => go!(visit_expr_cast, x),
            Expr::Closure(x) => go!(visit_expr_closure, x),
            Expr::Const(x) => go!(visit_expr_const, x),
            Expr::Continue(x) => go!(visit_expr_continue, x),
            Expr::Field(x) => go!(visit_expr_field, x),
            Expr::ForLoop(x) => go!(visit_expr_for_loop, x),
            Expr::Group(x) => go!(visit_expr_group, x),
            Expr::If(x) => go!(visit_expr_if, x),
            Expr::Index(x) => go!(visit_expr_index, x),
            Expr::Infer(x) => go!(visit_expr_infer, x),
            Expr::Let(x) => go!(visit_expr_let, x),
            Expr::Lit(x) => go!(visit_expr_lit, x),
            Expr::Loop(x) => go!(visit_expr_loop, x),
            Expr::Match(x) => go!(visit_expr_match, x),
            Expr::MethodCall(x) => go!(visit_expr_method_call, x),
            Expr::Paren(x) => go!(visit_expr_paren, x),
            Expr::Path(x) => go!(visit_expr_path, x),
            Expr::Range(x) => go!(visit_expr_range, x),
            Expr::Reference(x) => go!(visit_expr_reference, x),
            Expr::Repeat(x) => go!(visit_expr_repeat, x),
            Expr::Return(x) => go!(visit_expr_return, x),
            Expr::Struct(x) => go!(visit_expr_struct, x),
            Expr::Try(x) => go!(visit_expr_try, x),
            Expr::TryBlock(x) => go!(visit_expr_try_block, x),
            Expr::Tuple(x) => go!(visit_expr_tuple, x),
            Expr::Unary(x) => go!(visit_expr_unary, x),
            Expr::Unsafe(x) => go!(visit_expr_unsafe, x),
            Expr::While(x) => go!(visit_expr_while, x),
            Expr::Yield(x) => go!(visit_expr_yield, x),
            _ => {}
        }
    }

    /// `debug_assert*!` is dropped when debug_assertions is off (R2); message arguments are
    /// dropped and `_eq`/`_ne` forms are spelled with `==`/`!=` (Verus understands
    /// `assert!`/`debug_assert!` with a single condition).
    fn assert_macro(&mut self, name: &str, mac: &syn::Macro, r: Range<usize>, is_stmt: bool) {
        let debug = name.starts_with("debug_");
        if debug && !self.cfg.on.contains("debug_assertions") {
            self.cnt.bump("R2_debug_assert_off");
            if is_stmt {
                self.del(r);
            } else {
                self.edits.push(Edit { start: r.start, end: r.end, rep: "()".into() });
            }
            return;
        }
        let args = mac.parse_body_with(syn::punctuated::Punctuated::<Expr, syn::Token![,]>::parse_terminated);
        let args = match args {
            Ok(a) => a,
            Err(e) => {
                self.fail(format!("cannot parse {name}! arguments: {e}"));
                return;
            }
        };
        let a: Vec<&Expr> = args.iter().collect();
        let t = |e: &Expr| self.text[br(e)].to_string();
        let base = if debug { "debug_assert" } else { "assert" };
        let cond = match name {
            "debug_assert" | "assert" => {
                if a.is_empty() {
                    self.fail("empty assert".into());
                    return;
                }
                if a.len() == 1 {
                    return; // nothing to rewrite
                }
                t(a[0])
            }
            "debug_assert_eq" => format!("({}) == ({})", t(a[0]), t(a[1])),
            "debug_assert_ne" => format!("({}) != ({})", t(a[0]), t(a[1])),
            _ => unreachable!(),
        };
        self.cnt.bump("R1_assert_msg");
        let semi = if is_stmt { ";" } else { "" };
        self.edits.push(Edit { start: r.start, end: r.end, rep: format!("{base}!({cond}){semi}") });
    }
}

// ------------------------------------------------------------------------------------------
// R4: Option/Result combinators with literal closures -> match
// ------------------------------------------------------------------------------------------
struct R4Find<'a> {
    text: &'a str,
    result_methods: &'a HashSet<String>,
    found: Option<Edit>,
    err: Option<String>,
}

fn closure_has_escape(e: &Expr) -> bool {
    struct V(bool);
    impl<'ast> Visit<'ast> for V {
        fn visit_expr_return(&mut self, _: &'ast syn::ExprReturn) {
            self.0 = true;
        }
        fn visit_expr_try(&mut self, _: &'ast syn::ExprTry) {
            self.0 = true;
        }
    }
    let mut v = V(false);
    v.visit_expr(e);
    v.0
}

fn is_simple_default(e: &Expr) -> bool {
    match e {
        Expr::Lit(_) | Expr::Path(_) => true,
        Expr::Call(c) => matches!(&*c.func, Expr::Path(_)) && c.args.iter().all(is_simple_default),
        Expr::Paren(p) => is_simple_default(&p.expr),
        Expr::Tuple(t) => t.elems.iter().all(is_simple_default),
        _ => false,
    }
}

impl<'a, 'ast> Visit<'ast> for R4Find<'a> {
    fn visit_macro(&mut self, m: &'ast syn::Macro) {
        // conditions of assert!/debug_assert! are ordinary expressions: token spans inside the macro
        // are real source spans, so they can be rewritten like any other expression
        let n = mac_name(m);
        if n == "debug_assert" || n == "assert" {
            if let Ok(args) = m.parse_body_with(syn::punctuated::Punctuated::<Expr, syn::Token![,]>::parse_terminated) {
                for a in args.iter() {
                    // the parsed expressions do not outlive this call; collect the edit only
                    let mut inner = R4Find { text: self.text, result_methods: self.result_methods, found: None, err: None };
                    inner.visit_expr(a);
                    if self.found.is_none() {
                        self.found = inner.found;
                    }
                    if self.err.is_none() {
                        self.err = inner.err;
                    }
                }
            }
        }
    }
    fn visit_expr_method_call(&mut self, mc: &'ast syn::ExprMethodCall) {
        // innermost first
        visit::visit_expr_method_call(self, mc);
        if self.found.is_some() || self.err.is_some() {
            return;
        }
        let m = mc.method.to_string();
        let args: Vec<&Expr> = mc.args.iter().collect();
        let t = |e: &Expr| self.text[br(e)].to_string();
        let recv = t(&mc.receiver);
        let is_res = self.result_methods.contains(&m);
        let (some, none_pat) = if is_res { ("Ok", "Err(__e)") } else { ("Some", "None") };
        let none_id = if is_res { "Err(__e)" } else { "None" };
        let clos = |e: &Expr| -> Option<(String, String)> {
            if let Expr::Closure(c) = e {
                let pat = if c.inputs.is_empty() {
                    String::new()
                } else if c.inputs.len() == 1 {
                    match &c.inputs[0] {
                        syn::Pat::Type(pt) => self.text[br(&*pt.pat)].to_string(),
                        p => self.text[br(p)].to_string(),
                    }
                } else {
                    return None;
                };
                Some((pat, self.text[br(&*c.body)].to_string()))
            } else if let Expr::Path(pth) = e {
                // a function item passed by name: `x.map_or(d, f)` == `match x { Some(v) => f(v), None => d }`
                Some(("__v".to_string(), format!("{}(__v)", self.text[br(pth)].to_string())))
            } else {
                None
            }
        };
        let rep = match (m.as_str(), args.len()) {
            ("map_or", 2) => {
                let Some((p, b)) = clos(args[1]) else { return };
                if !is_simple_default(args[0]) {
                    self.err = Some(format!("R4: map_or default is not a constant: {}", t(args[0])));
                    return;
                }
                if closure_has_escape(args[1]) {
                    // a closure with `return`/`?` cannot become a match arm: the call is left as it is (the unit then
                    // needs a specification of Option::map_or and a //@closure contract; Verus decides)
                    return;
                }
                format!("(match {recv} {{ {some}({p}) => {b}, {none_pat} => {} }})", t(args[0]))
            }
            ("map_or_else", 2) => {
                if !matches!(args[0], Expr::Closure(_)) {
                    return;
                }
                let (Some((_, d)), Some((p, b))) = (clos(args[0]), clos(args[1])) else { return };
                if closure_has_escape(args[0]) || closure_has_escape(args[1]) {
                    self.err = Some("R4: closure contains return/?".into());
                    return;
                }
                format!("(match {recv} {{ {some}({p}) => {b}, {none_pat} => {d} }})")
            }
            ("is_some_and", 1) => {
                let Some((p, b)) = clos(args[0]) else { return };
                if closure_has_escape(args[0]) {
                    self.err = Some("R4: closure contains return/?".into());
                    return;
                }
                format!("(match {recv} {{ Some({p}) => {b}, None => false }})")
            }
            ("map", 1) => {
                let Some((p, b)) = clos(args[0]) else { return };
                if closure_has_escape(args[0]) {
                    self.err = Some("R4: closure contains return/?".into());
                    return;
                }
                format!("(match {recv} {{ {some}({p}) => {some}({b}), {none_pat} => {none_id} }})")
            }
            ("and_then", 1) => {
                let Some((p, b)) = clos(args[0]) else { return };
                if closure_has_escape(args[0]) {
                    self.err = Some("R4: closure contains return/?".into());
                    return;
                }
                format!("(match {recv} {{ {some}({p}) => {b}, {none_pat} => {none_id} }})")
            }
            ("map_err", 1) if is_res => {
                // std: `x.map_err(f)` == `match x { Ok(v) => Ok(v), Err(e) => Err(f(e)) }` (only when listed in //@r4result)
                let Some((p, b)) = clos(args[0]) else { return };
                if closure_has_escape(args[0]) {
                    self.err = Some("R4: closure contains return/?".into());
                    return;
                }
                let p = if p.is_empty() { "_".to_string() } else { p };
                format!("(match {recv} {{ Ok(__v) => Ok(__v), Err({p}) => Err({b}) }})")
            }
            ("or_else", 1) if !is_res => {
                // std: `x.or_else(f)` == `match x { x @ Some(_) => x, None => f() }`
                if !matches!(args[0], Expr::Closure(_)) {
                    return;
                }
                let Some((_, b)) = clos(args[0]) else { return };
                if closure_has_escape(args[0]) {
                    self.err = Some("R4: closure contains return/?".into());
                    return;
                }
                format!("(match {recv} {{ Some(__v) => Some(__v), None => {b} }})")
            }
            ("unwrap_or_else", 1) => {
                if !matches!(args[0], Expr::Closure(_)) {
                    return;
                }
                let Some((p, b)) = clos(args[0]) else { return };
                if closure_has_escape(args[0]) {
                    self.err = Some("R4: closure contains return/?".into());
                    return;
                }
                if is_res {
                    let p = if p.is_empty() { "_".to_string() } else { p };
                    format!("(match {recv} {{ Ok(__v) => __v, Err({p}) => {b} }})")
                } else {
                    format!("(match {recv} {{ Some(__v) => __v, None => {b} }})")
                }
            }
            _ => return,
        };
        let r = br(mc);
        self.found = Some(Edit { start: r.start, end: r.end, rep });
    }
}

fn r4_pass(mut text: String, is_method: bool, result_methods: &HashSet<String>, cnt: &mut Counters) -> Result<String, String> {
    for _ in 0..200 {
        let edit;
        {
            let mut f = R4Find { text: &text, result_methods, found: None, err: None };
            if is_method {
                let ast: syn::ImplItemFn = syn::parse_str(&text).map_err(|e| format!("reparse (R4): {e}"))?;
                f.visit_impl_item_fn(&ast);
            } else {
                let ast: syn::ItemFn = syn::parse_str(&text).map_err(|e| format!("reparse (R4): {e}"))?;
                f.visit_item_fn(&ast);
            }
            if let Some(e) = f.err {
                return Err(e);
            }
            edit = f.found;
        }
        match edit {
            None => return Ok(text),
            Some(e) => {
                cnt.bump("R4_desugar");
                text = apply_edits(&text, vec![e]);
            }
        }
    }
    Err("R4 did not converge".into())
}


// ------------------------------------------------------------------------------------------
// R12: a guarded match arm directly followed by the final wildcard arm
//        `P if G => A, _ => B`   ==   `P => if G { A } else { B }, _ => B`
//      (when G is false matching falls through to the only remaining arm, the wildcard, which binds nothing).
//      Needed because this Verus build mis-handles `return` in the arm after a guarded arm inside a loop.
// ------------------------------------------------------------------------------------------
struct R12Find<'a> {
    text: &'a str,
    found: Option<Vec<Edit>>,
}
impl<'a, 'ast> Visit<'ast> for R12Find<'a> {
    fn visit_expr_match(&mut self, m: &'ast syn::ExprMatch) {
        visit::visit_expr_match(self, m);
        if self.found.is_some() {
            return;
        }
        let n = m.arms.len();
        if n < 2 {
            return;
        }
        let last = &m.arms[n - 1];
        if !matches!(last.pat, syn::Pat::Wild(_)) || last.guard.is_some() {
            return;
        }
        let g = &m.arms[n - 2];
        let Some((if_tok, guard)) = &g.guard else { return };
        let body = br(&*g.body);
        let rest = self.text[br(&*last.body)].to_string();
        let wrap = |s: &str| if s.trim_start().starts_with('{') { s.to_string() } else { format!("{{ {s} }}") };
        let gtxt = self.text[br(&**guard)].to_string();
        let btxt = self.text[body.clone()].to_string();
        let mut edits = vec![];
        // remove ` if G`
        edits.push(Edit { start: br(if_tok).start, end: br(&**guard).end, rep: String::new() });
        edits.push(Edit { start: body.start, end: body.end, rep: format!("if {gtxt} {} else {}", wrap(&btxt), wrap(&rest)) });
        self.found = Some(edits);
    }
}

fn r12_pass(mut text: String, is_method: bool, cnt: &mut Counters) -> Result<String, String> {
    for _ in 0..100 {
        let edits;
        {
            let mut f = R12Find { text: &text, found: None };
            if is_method {
                let ast: syn::ImplItemFn = syn::parse_str(&text).map_err(|e| format!("reparse (R12): {e}"))?;
                f.visit_impl_item_fn(&ast);
            } else {
                let ast: syn::ItemFn = syn::parse_str(&text).map_err(|e| format!("reparse (R12): {e}"))?;
                f.visit_item_fn(&ast);
            }
            edits = f.found;
        }
        match edits {
            None => return Ok(text),
            Some(e) => {
                cnt.bump("R12_match_guard");
                text = apply_edits(&text, e);
            }
        }
    }
    Err("R12 did not converge".into())
}

// ------------------------------------------------------------------------------------------
// R14: reference patterns that bind one identifier (unsupported by Verus: "ref patterns"), opt-in via //@refpats
//        closure parameter   `|&x| B`                      ==  `|x__r| { let x = *x__r; B }`
//        let / let-else      `let P[&x] = E else { D };`   ==  `let P[x__r] = E else { D }; let x = *x__r;`
//      A pattern `&x` matched against a `&T` binds `x` to a copy of the referent, which is what `*x__r` is. This is
//      only meaningful for `T: Copy`; vx sees no types, but for a non-Copy `T` rustc rejects both the original and the
//      rewritten form (E0507, cannot move out of a reference), so the generated file cannot compile in that case
//      (exit 2, never a verdict). The one user, Lexer::lex_macro_var_expr (U06), has T = u8 (`Vec<u8>::first()`,
//      `Vec<u8>::retain`). Only `&ident` without `mut`, `ref` or sub-pattern is handled; counted per occurrence.
//        if-let              `if let P[&S { f: x, .. }] = E { B }`  ==  `if let P[s__rN] = E { let S { f: x, .. } = *s__rN; B }`
//      for a struct pattern `S { .. }` whose fields only bind plain identifiers (so it is irrefutable and matching
//      `&S { .. }` against a `&S` cannot fail): the bindings are copies of the referent's fields in both forms. Were `S`
//      an enum variant (refutable) or a bound field not Copy, rustc rejects the rewritten `let` (E0005 / E0507): exit 2,
//      never a verdict. User: Lexer::maybe_emit_empty_macro_string_in_eval (U19), `Option<&TokenInfo>`.
// ------------------------------------------------------------------------------------------
struct R14Find<'t> {
    found: Option<Vec<Edit>>,
    hits: usize,
    text: &'t str,
}
/// `&S { f: x, g, .. }` (no `mut`, every field pattern a plain identifier binding)
fn ref_struct_pats(p: &syn::Pat, out: &mut Vec<(Range<usize>, Range<usize>)>) {
    struct V<'o>(&'o mut Vec<(Range<usize>, Range<usize>)>);
    impl<'ast, 'o> Visit<'ast> for V<'o> {
        fn visit_pat_reference(&mut self, r: &'ast syn::PatReference) {
            if r.mutability.is_none() {
                if let syn::Pat::Struct(ps) = &*r.pat {
                    let plain = ps.qself.is_none() && ps.fields.iter().all(|f| match &*f.pat {
                        syn::Pat::Ident(pi) => pi.by_ref.is_none() && pi.mutability.is_none() && pi.subpat.is_none(),
                        _ => false,
                    });
                    if plain {
                        self.0.push((br(r), br(ps)));
                        return;
                    }
                }
            }
            visit::visit_pat_reference(self, r);
        }
    }
    V(out).visit_pat(p);
}
fn ref_ident_pats(p: &syn::Pat, out: &mut Vec<(Range<usize>, String)>) {
    struct V<'o>(&'o mut Vec<(Range<usize>, String)>);
    impl<'ast, 'o> Visit<'ast> for V<'o> {
        fn visit_pat_reference(&mut self, r: &'ast syn::PatReference) {
            if r.mutability.is_none() {
                if let syn::Pat::Ident(pi) = &*r.pat {
                    if pi.by_ref.is_none() && pi.mutability.is_none() && pi.subpat.is_none() {
                        self.0.push((br(r), pi.ident.to_string()));
                        return;
                    }
                }
            }
            visit::visit_pat_reference(self, r);
        }
    }
    V(out).visit_pat(p);
}
impl<'ast, 't> Visit<'ast> for R14Find<'t> {
    fn visit_expr_closure(&mut self, c: &'ast syn::ExprClosure) {
        visit::visit_expr_closure(self, c);
        if self.found.is_some() {
            return;
        }
        let mut hits = vec![];
        for inp in &c.inputs {
            match inp {
                syn::Pat::Type(pt) => ref_ident_pats(&pt.pat, &mut hits),
                p => ref_ident_pats(p, &mut hits),
            }
        }
        if hits.is_empty() {
            return;
        }
        let mut edits = vec![];
        let mut lets = String::new();
        for (r, id) in &hits {
            edits.push(Edit { start: r.start, end: r.end, rep: format!("{id}__r") });
            let _ = write!(lets, "let {id} = *{id}__r; ");
        }
        let b = br(&*c.body);
        if let Expr::Block(bl) = &*c.body {
            let open = br(&bl.block).start;
            edits.push(Edit { start: open + 1, end: open + 1, rep: format!(" {lets}") });
        } else {
            edits.push(Edit { start: b.start, end: b.start, rep: format!("{{ {lets}") });
            edits.push(Edit { start: b.end, end: b.end, rep: " }".into() });
        }
        self.hits = hits.len();
        self.found = Some(edits);
    }
    fn visit_expr_if(&mut self, i: &'ast syn::ExprIf) {
        visit::visit_expr_if(self, i);
        if self.found.is_some() {
            return;
        }
        let Expr::Let(el) = &*i.cond else { return };
        let mut hits = vec![];
        ref_struct_pats(&el.pat, &mut hits);
        if hits.is_empty() {
            return;
        }
        let mut edits = vec![];
        let mut lets = String::new();
        for (n, (whole, inner)) in hits.iter().enumerate() {
            let id = format!("s__r{n}");
            edits.push(Edit { start: whole.start, end: whole.end, rep: id.clone() });
            let _ = write!(lets, " let {} = *{id};", &self.text[inner.clone()]);
        }
        let open = br(&i.then_branch).start;
        edits.push(Edit { start: open + 1, end: open + 1, rep: lets });
        self.hits = hits.len();
        self.found = Some(edits);
    }
    fn visit_local(&mut self, l: &'ast syn::Local) {
        visit::visit_local(self, l);
        if self.found.is_some() {
            return;
        }
        let mut hits = vec![];
        ref_ident_pats(&l.pat, &mut hits);
        if hits.is_empty() {
            return;
        }
        let mut edits = vec![];
        let mut lets = String::new();
        for (r, id) in &hits {
            edits.push(Edit { start: r.start, end: r.end, rep: format!("{id}__r") });
            let _ = write!(lets, " let {id} = *{id}__r;");
        }
        let end = br(l).end;
        edits.push(Edit { start: end, end, rep: lets });
        self.hits = hits.len();
        self.found = Some(edits);
    }
}

fn r14_pass(mut text: String, is_method: bool, cnt: &mut Counters) -> Result<String, String> {
    for _ in 0..100 {
        let edits;
        let hits;
        {
            let mut f = R14Find { found: None, hits: 0, text: &text };
            if is_method {
                let ast: syn::ImplItemFn = syn::parse_str(&text).map_err(|e| format!("reparse (R14): {e}"))?;
                f.visit_impl_item_fn(&ast);
            } else {
                let ast: syn::ItemFn = syn::parse_str(&text).map_err(|e| format!("reparse (R14): {e}"))?;
                f.visit_item_fn(&ast);
            }
            edits = f.found;
            hits = f.hits;
        }
        match edits {
            None => return Ok(text),
            Some(e) => {
                // counted per rewritten `&x` occurrence
                for _ in 0..hits {
                    cnt.bump("R14_ref_pattern");
                }
                text = apply_edits(&text, e);
            }
        }
    }
    Err("R14 did not converge".into())
}

// ------------------------------------------------------------------------------------------
// R10: `mut self` receivers (unsupported by Verus): `fn f(mut self, ..) { B }` becomes
//      `fn f(self, ..) { let mut self_ = self; B[self := self_] }` — a pure alpha-renaming
// ------------------------------------------------------------------------------------------
fn collect_self_idents(ts: proc_macro2::TokenStream, out: &mut Vec<Range<usize>>) {
    for t in ts {
        match t {
            proc_macro2::TokenTree::Ident(i) if i == "self" => out.push(i.span().byte_range()),
            proc_macro2::TokenTree::Group(g) => collect_self_idents(g.stream(), out),
            _ => {}
        }
    }
}

fn mutself_pass(text: String, is_method: bool, cnt: &mut Counters) -> Result<String, String> {
    if !is_method {
        return Ok(text);
    }
    let ast: syn::ImplItemFn = syn::parse_str(&text).map_err(|e| format!("reparse (R10): {e}"))?;
    let Some(syn::FnArg::Receiver(rc)) = ast.sig.inputs.first() else { return Ok(text) };
    if rc.reference.is_some() || rc.mutability.is_none() {
        return Ok(text);
    }
    let mut edits = vec![];
    let m = br(&rc.mutability);
    edits.push(Edit { start: m.start, end: eat_ws(&text, m.end), rep: String::new() });
    let open = br(&ast.block).start;
    edits.push(Edit { start: open + 1, end: open + 1, rep: "\n        let mut self_ = self;".into() });
    let mut ids = vec![];
    use quote::ToTokens;
    let _ = ast.block.to_token_stream();
    let body_ts: proc_macro2::TokenStream = ast.block.to_token_stream();
    collect_self_idents(body_ts, &mut ids);
    for r in ids {
        edits.push(Edit { start: r.start, end: r.end, rep: "self_".into() });
    }
    cnt.bump("R10_mut_self");
    Ok(apply_edits(&text, edits))
}

// ------------------------------------------------------------------------------------------
// R13: `//@stub N <let-anchor> => <stand_in(args)>` — the initializer expression of ONE `let` statement that
//      Verus cannot express (e.g. an iterator chain whose closure mutates a captured variable) is replaced by a
//      call to a named external_body stand-in with an assumed contract. Only a `let` initializer can be replaced,
//      only by `ident(ident | &ident | &mut ident, ..)` (`&mut x` when the replaced expression assigns the local `x`, e.g.
//      through a closure that captures it); the original expression text is listed in the map's `dropped` list
//      (prefix `R13:`), so the evidence names exactly what was not verified. Runs before R4.
// ------------------------------------------------------------------------------------------
#[derive(Default)]
struct LetFind {
    stmts: Vec<(usize, usize, Option<(usize, usize)>)>,
}
impl<'ast> Visit<'ast> for LetFind {
    fn visit_stmt(&mut self, s: &'ast Stmt) {
        let r = br(s);
        let init = match s {
            Stmt::Local(l) => match &l.init {
                Some(i) if i.diverge.is_none() => {
                    let e = br(&*i.expr);
                    Some((e.start, e.end))
                }
                _ => None,
            },
            _ => None,
        };
        self.stmts.push((r.start, r.end, init));
        visit::visit_stmt(self, s);
    }
}

fn is_stub_call(call: &str) -> bool {
    let Ok(Expr::Call(c)) = syn::parse_str::<Expr>(call) else { return false };
    let simple = |e: &Expr| matches!(e, Expr::Path(p) if p.path.get_ident().is_some());
    simple(&c.func)
        && c.args.iter().all(|a| match a {
            // `&mut x`: for a closure that assigns a captured local, the stand-in takes that local by mutable reference
            Expr::Reference(r) => simple(&r.expr),
            e => simple(e),
        })
}

fn stub_pass(mut text: String, is_method: bool, path: &str, stubs: &[(usize, String, String)], cnt: &mut Counters, dropped: &mut Vec<String>) -> Result<String, String> {
    for (k, anchor, call) in stubs {
        if !is_stub_call(call) {
            return Err(format!("{path}: //@stub replacement must be `stand_in(ident | &ident | &mut ident, ..)`, got `{call}`"));
        }
        let mut f = LetFind::default();
        if is_method {
            let ast: syn::ImplItemFn = syn::parse_str(&text).map_err(|e| format!("reparse (R13): {e}"))?;
            f.visit_block(&ast.block);
        } else {
            let ast: syn::ItemFn = syn::parse_str(&text).map_err(|e| format!("reparse (R13): {e}"))?;
            f.visit_block(&ast.block);
        }
        let want = norm(anchor);
        let mut hits = f.stmts.iter().filter(|(a, b, _)| norm(&text[*a..*b]).starts_with(&want));
        let Some((_, _, init)) = hits.nth(*k) else {
            return Err(format!("lost anchor: {path}: statement #{k} starting with `{anchor}` not found (stub)"));
        };
        let Some((a, b)) = init else {
            return Err(format!("{path}: //@stub only applies to the initializer of a plain `let` statement (`{anchor}`)"));
        };
        let orig = norm(&text[*a..*b]);
        let cut = orig.char_indices().nth(300).map_or(orig.len(), |(i, _)| i);
        cnt.bump("R13_stub_expr");
        dropped.push(format!("R13: {path}: `{}` replaced by assumed stand-in `{call}`", &orig[..cut]));
        text = apply_edits(&text, vec![Edit { start: *a, end: *b, rep: format!("/* R13: expression replaced by an assumed stand-in */ {call}") }]);
    }
    Ok(text)
}

// ------------------------------------------------------------------------------------------
// R15: `//@inline_eat_while N` — the N-th call `X.eat_while(<closure literal>)` of the function (0-based, source order of
//      the ORIGINAL text, counting only calls whose argument is a closure literal) is replaced by the BODY OF
//      `Cursor::eat_while`, TAKEN FROM cursor.rs OF THE SAME TREE at generation time (never typed by hand), with
//          self            ->  X                                   (X: a local / field path, so re-evaluation is harmless)
//          predicate(E)    ->  ({ let <closure param> = E; <closure body> })
//          return;         ->  break;                              (only directly inside the loop that ends the body)
//      Needed because Verus rejects closures that mutate a captured variable (`is_ascii = false` in the identifier
//      scanners): after inlining the mutation is an ordinary assignment in the function's own loop.
//      Soundness: `Cursor::eat_while` is an inherent method (static dispatch), so the call IS an execution of that body
//      with `self := X` and `predicate := the closure`; a non-`move` closure borrows what it captures, so running its
//      body in place of each call has the same effect on the captured variables; `return` directly inside the final
//      loop of a `()` function only leaves that loop. `Cursor::eat_while` itself stays proved in U02 (cursor.vx).
//      The shape conditions below are checked; any violation (eat_while restructured, `move` closure, closure with
//      `return`/`?`, name capture) is exit 2 (lost anchor / unsupported), never a verdict.
//      The inlined loop is a loop of the function like any other: it needs a `//@loop` invariant, and it is numbered
//      in source order of the REWRITTEN text (it takes the ordinal the call site has among the function's loops; every
//      later loop moves up by one). Counted as `R15_inline_eat_while`.
// ------------------------------------------------------------------------------------------
struct EatWhileDef {
    /// cleaned text of the method (pass 1 applied)
    text: String,
    block: Range<usize>,
    self_uses: Vec<Range<usize>>,
    returns: Vec<Range<usize>>,
    pred_calls: Vec<(Range<usize>, Range<usize>)>, // (call, argument)
    bound: Vec<String>,
}

fn pat_idents(p: &syn::Pat, out: &mut Vec<String>) {
    struct V<'o>(&'o mut Vec<String>);
    impl<'ast, 'o> Visit<'ast> for V<'o> {
        fn visit_pat_ident(&mut self, p: &'ast syn::PatIdent) {
            self.0.push(p.ident.to_string());
            visit::visit_pat_ident(self, p);
        }
    }
    V(out).visit_pat(p);
}

fn ident_tokens(ts: proc_macro2::TokenStream, out: &mut Vec<String>) {
    for t in ts {
        match t {
            proc_macro2::TokenTree::Ident(i) => out.push(i.to_string()),
            proc_macro2::TokenTree::Group(g) => ident_tokens(g.stream(), out),
            _ => {}
        }
    }
}

fn analyse_eat_while(text: String) -> Result<EatWhileDef, String> {
    let lost = |m: &str| format!("lost anchor: R15: Cursor::eat_while {m}");
    let ast: syn::ImplItemFn = syn::parse_str(&text).map_err(|e| format!("reparse (R15): {e}"))?;
    if !matches!(ast.sig.output, syn::ReturnType::Default) || ast.sig.asyncness.is_some() || ast.sig.constness.is_some() {
        return Err(lost("no longer returns `()`"));
    }
    let ins: Vec<&syn::FnArg> = ast.sig.inputs.iter().collect();
    if ins.len() != 2 {
        return Err(lost("no longer takes (&mut self, predicate)"));
    }
    match ins[0] {
        syn::FnArg::Receiver(r) if r.reference.is_some() && r.mutability.is_some() => {}
        _ => return Err(lost("no longer takes `&mut self`")),
    }
    let pred = match ins[1] {
        syn::FnArg::Typed(pt) => match &*pt.pat {
            syn::Pat::Ident(pi) if pi.by_ref.is_none() && pi.subpat.is_none() => pi.ident.to_string(),
            _ => return Err(lost("predicate parameter is not a plain identifier")),
        },
        _ => return Err(lost("no predicate parameter")),
    };
    // the body must end with a loop statement; `return;` may only occur directly inside that loop
    let Some(last) = ast.block.stmts.last() else { return Err(lost("has an empty body")) };
    let last_loop = match last {
        Stmt::Expr(e @ (Expr::While(_) | Expr::Loop(_)), _) => br(e),
        _ => return Err(lost("no longer ends with a `while`/`loop` statement")),
    };
    struct V<'p> {
        pred: &'p str,
        last_loop: Range<usize>,
        loop_depth: usize,
        in_last: bool,
        in_closure: usize,
        self_uses: Vec<Range<usize>>,
        returns: Vec<Range<usize>>,
        pred_calls: Vec<(Range<usize>, Range<usize>)>,
        bound: Vec<String>,
        free: Vec<String>,
        err: Option<String>,
    }
    impl<'ast, 'p> Visit<'ast> for V<'p> {
        fn visit_pat(&mut self, p: &'ast syn::Pat) {
            pat_idents(p, &mut self.bound);
        }
        fn visit_expr(&mut self, e: &'ast Expr) {
            match e {
                Expr::While(_) | Expr::Loop(_) | Expr::ForLoop(_) => {
                    let is_last = br(e) == self.last_loop;
                    if is_last {
                        self.in_last = true;
                    }
                    self.loop_depth += 1;
                    visit::visit_expr(self, e);
                    self.loop_depth -= 1;
                    if is_last {
                        self.in_last = false;
                    }
                    return;
                }
                Expr::Closure(_) => {
                    self.in_closure += 1;
                    visit::visit_expr(self, e);
                    self.in_closure -= 1;
                    return;
                }
                Expr::Return(r) => {
                    if r.expr.is_some() || !self.in_last || self.loop_depth != 1 || self.in_closure != 0 {
                        self.err = Some("has a `return` that is not directly inside its final loop".into());
                    }
                    self.returns.push(br(e));
                }
                Expr::Try(_) | Expr::Macro(_) | Expr::Async(_) | Expr::Await(_) | Expr::Yield(_) => {
                    self.err = Some("contains `?`, a macro call or async code".into());
                }
                Expr::Break(b) if b.label.is_some() => self.err = Some("contains a labelled break".into()),
                Expr::Continue(c) if c.label.is_some() => self.err = Some("contains a labelled continue".into()),
                Expr::Call(c) => {
                    if let Expr::Path(p) = &*c.func {
                        if p.path.is_ident(self.pred) {
                            if c.args.len() != 1 {
                                self.err = Some("calls its predicate with other than one argument".into());
                            } else {
                                self.pred_calls.push((br(e), br(&c.args[0])));
                            }
                            // the argument is visited, the callee path is not (it is not a free use of the predicate)
                            for a in &c.args {
                                self.visit_expr(a);
                            }
                            return;
                        }
                    }
                }
                Expr::Path(p) => {
                    if p.qself.is_none() {
                        if let Some(id) = p.path.get_ident() {
                            let n = id.to_string();
                            if n == "self" {
                                self.self_uses.push(br(e));
                            } else if n == self.pred {
                                self.err = Some("uses its predicate other than by calling it".into());
                            } else {
                                self.free.push(n);
                            }
                        }
                    }
                }
                _ => {}
            }
            visit::visit_expr(self, e);
        }
        fn visit_stmt(&mut self, s: &'ast Stmt) {
            if matches!(s, Stmt::Item(_) | Stmt::Macro(_)) {
                self.err = Some("contains a nested item or a macro statement".into());
            }
            visit::visit_stmt(self, s);
        }
    }
    let mut v = V { pred: &pred, last_loop, loop_depth: 0, in_last: false, in_closure: 0, self_uses: vec![], returns: vec![], pred_calls: vec![], bound: vec![], free: vec![], err: None };
    v.visit_block(&ast.block);
    if let Some(e) = v.err {
        return Err(lost(&e));
    }
    if v.pred_calls.is_empty() {
        return Err(lost("never calls its predicate"));
    }
    // every name the body reads must be bound by the body itself (a name resolved in cursor.rs could mean something
    // else at the call site)
    for f in &v.free {
        if !v.bound.contains(f) {
            return Err(lost(&format!("reads the outer name `{f}`")));
        }
    }
    let block = br(&ast.block);
    let (self_uses, returns, pred_calls, bound) = (v.self_uses, v.returns, v.pred_calls, v.bound);
    Ok(EatWhileDef { text, block, self_uses, returns, pred_calls, bound })
}

/// `a`, `a.b.c`: an expression that names a place and has no effects (evaluating it several times is harmless)
fn place_root(e: &Expr) -> Option<String> {
    match e {
        Expr::Path(p) if p.qself.is_none() => p.path.get_ident().map(|i| i.to_string()),
        Expr::Field(f) => place_root(&f.base),
        Expr::Paren(p) => place_root(&p.expr),
        _ => None,
    }
}

struct EatWhileCalls {
    /// (position of the method name, statement range if the call is an expression statement, receiver, closure)
    calls: Vec<(usize, Option<Range<usize>>, Range<usize>, syn::ExprClosure)>,
}
impl EatWhileCalls {
    fn call_of(e: &Expr) -> Option<&syn::ExprMethodCall> {
        if let Expr::MethodCall(mc) = e {
            if mc.method == "eat_while" && mc.args.len() == 1 && matches!(mc.args[0], Expr::Closure(_)) {
                return Some(mc);
            }
        }
        None
    }
}
impl<'ast> Visit<'ast> for EatWhileCalls {
    fn visit_stmt(&mut self, s: &'ast Stmt) {
        if let Stmt::Expr(e, Some(_)) = s {
            if let Some(mc) = Self::call_of(e) {
                let Expr::Closure(c) = &mc.args[0] else { unreachable!() };
                self.calls.push((br(&mc.method).start, Some(br(s)), br(&*mc.receiver), c.clone()));
                // nested calls (inside the receiver or the closure) are still counted
                self.visit_expr(&mc.receiver);
                self.visit_expr(&c.body);
                return;
            }
        }
        visit::visit_stmt(self, s);
    }
    fn visit_expr(&mut self, e: &'ast Expr) {
        if let Some(mc) = Self::call_of(e) {
            let Expr::Closure(c) = &mc.args[0] else { unreachable!() };
            self.calls.push((br(&mc.method).start, None, br(&*mc.receiver), c.clone()));
        }
        visit::visit_expr(self, e);
    }
}

fn inline_eat_while_pass(text: String, is_method: bool, path: &str, ns: &[usize], def: &EatWhileDef, cnt: &mut Counters) -> Result<String, String> {
    let mut f = EatWhileCalls { calls: vec![] };
    if is_method {
        let ast: syn::ImplItemFn = syn::parse_str(&text).map_err(|e| format!("reparse (R15): {e}"))?;
        f.visit_block(&ast.block);
    } else {
        let ast: syn::ItemFn = syn::parse_str(&text).map_err(|e| format!("reparse (R15): {e}"))?;
        f.visit_block(&ast.block);
    }
    f.calls.sort_by_key(|c| c.0);
    let mut seen = HashSet::new();
    let mut edits = vec![];
    for n in ns {
        if !seen.insert(*n) {
            return Err(format!("{path}: //@inline_eat_while {n} given twice"));
        }
        let Some((_, stmt, recv, clos)) = f.calls.get(*n) else {
            return Err(format!("lost anchor: {path}: no call #{n} of the form `X.eat_while(<closure literal>)` (R15)"));
        };
        let Some(stmt) = stmt else {
            return Err(format!("{path}: R15: call #{n} of eat_while is not an expression statement"));
        };
        let recv_txt = text[recv.clone()].to_string();
        let recv_expr: Expr = syn::parse_str(&recv_txt).map_err(|e| format!("reparse (R15 receiver): {e}"))?;
        let Some(root) = place_root(&recv_expr) else {
            return Err(format!("{path}: R15: receiver `{recv_txt}` of eat_while call #{n} is not a plain place (ident or field path)"));
        };
        if clos.capture.is_some() || clos.asyncness.is_some() || clos.movability.is_some() || clos.constness.is_some() {
            return Err(format!("{path}: R15: `move`/async closure passed to eat_while call #{n}"));
        }
        if clos.inputs.len() != 1 {
            return Err(format!("{path}: R15: closure of eat_while call #{n} does not take exactly one parameter"));
        }
        let (ppat, pty) = match &clos.inputs[0] {
            syn::Pat::Type(pt) => (&*pt.pat, Some(text[br(&*pt.ty)].to_string())),
            p => (p, None),
        };
        let pname = match ppat {
            syn::Pat::Ident(pi) if pi.by_ref.is_none() && pi.subpat.is_none() => pi.ident.to_string(),
            _ => return Err(format!("{path}: R15: closure parameter of eat_while call #{n} is not a plain identifier")),
        };
        let pmut = matches!(ppat, syn::Pat::Ident(pi) if pi.mutability.is_some());
        if closure_has_escape(&clos.body) {
            return Err(format!("{path}: R15: closure of eat_while call #{n} contains `return`/`?`"));
        }
        // hygiene: a name bound inside eat_while's body must not capture a name the closure body or the receiver uses
        let mut used = vec![];
        use quote::ToTokens;
        ident_tokens(clos.body.to_token_stream(), &mut used);
        for b in &def.bound {
            if (*b != pname && used.contains(b)) || *b == root {
                return Err(format!("{path}: R15: the name `{b}` bound inside Cursor::eat_while would capture a name used at call #{n}"));
            }
        }
        // (the predicate parameter's own name disappears from the inlined text: it binds nothing there)
        let body_txt = text[br(&*clos.body)].to_string();
        let bind = format!("let {}{pname}{} = ", if pmut { "mut " } else { "" }, pty.map(|t| format!(": {t}")).unwrap_or_default());
        // build the inlined block from eat_while's own text
        let mut inner = vec![];
        for r in &def.self_uses {
            inner.push(Edit { start: r.start, end: r.end, rep: recv_txt.clone() });
        }
        for r in &def.returns {
            inner.push(Edit { start: r.start, end: r.end, rep: "break".into() });
        }
        for (call, arg) in &def.pred_calls {
            // the argument text may itself contain `self`: apply the self-substitution inside it by hand
            let mut arg_edits = vec![];
            for r in &def.self_uses {
                if r.start >= arg.start && r.end <= arg.end {
                    arg_edits.push(Edit { start: r.start - arg.start, end: r.end - arg.start, rep: recv_txt.clone() });
                }
            }
            let arg_txt = apply_edits(&def.text[arg.clone()], arg_edits);
            inner.push(Edit { start: call.start, end: call.end, rep: format!("({{ {bind}{arg_txt}; {body_txt} }})") });
        }
        let full = apply_edits(&def.text, inner);
        // the block's extent in the edited text: everything from its opening brace to the end of the method text
        let block_txt = full[def.block.start..].trim_end();
        cnt.bump("R15_inline_eat_while");
        edits.push(Edit {
            start: stmt.start,
            end: stmt.end,
            rep: format!("/* R15: `{recv_txt}.eat_while(<closure>)` replaced by the body of Cursor::eat_while (cursor.rs of the same tree) */ {block_txt}"),
        });
    }
    Ok(apply_edits(&text, edits))
}

// ------------------------------------------------------------------------------------------
// R17: `//@enumerate` — `for (I, P) in E.enumerate() { B }` (I a plain identifier) becomes
//          { let mut I__n: usize = 0; for P in E { let I = I__n; I__n += 1; B } }
//      Verus has no specification of `core::iter::Enumerate`. The rewritten text is std's definition of
//      `Enumerate::next` (`let a = self.iter.next()?; let i = self.count; self.count += 1; Some((i, a))`) unfolded
//      into the loop: the counter is read and incremented right after the inner iterator yielded an element and before
//      the body runs, so `continue` / `break` in B see the same counter values; `+= 1` carries the same overflow check
//      (`Enumerate::next` inherits the caller crate's overflow checks) and becomes a proof obligation. The loop keeps
//      its ordinal for `//@loop` / `//@forghost`. Only unlabelled loops with the pattern `(ident, P)`; counted per
//      occurrence as R17_enumerate. Trusted: that std definition (A4).
// ------------------------------------------------------------------------------------------
struct R17Find<'t> {
    found: Option<Vec<Edit>>,
    err: Option<String>,
    text: &'t str,
}
impl<'ast, 't> Visit<'ast> for R17Find<'t> {
    fn visit_expr_for_loop(&mut self, f: &'ast syn::ExprForLoop) {
        visit::visit_expr_for_loop(self, f);
        if self.found.is_some() || self.err.is_some() {
            return;
        }
        let Expr::MethodCall(mc) = &*f.expr else { return };
        if mc.method != "enumerate" || !mc.args.is_empty() || mc.turbofish.is_some() {
            return;
        }
        let bad = |m: &str| Some(format!("R17: `for .. in ..enumerate()` {m}"));
        if f.label.is_some() {
            self.err = bad("is labelled");
            return;
        }
        let syn::Pat::Tuple(pt) = &*f.pat else {
            self.err = bad("does not destructure `(index, item)`");
            return;
        };
        if pt.elems.len() != 2 {
            self.err = bad("does not destructure `(index, item)`");
            return;
        }
        let idx = match &pt.elems[0] {
            syn::Pat::Ident(pi) if pi.by_ref.is_none() && pi.subpat.is_none() && pi.mutability.is_none() => pi.ident.to_string(),
            _ => {
                self.err = bad("index pattern is not a plain identifier");
                return;
            }
        };
        let item = self.text[br(&pt.elems[1])].to_string();
        let recv = br(&*mc.receiver);
        let whole = br(f);
        let open = br(&f.body).start;
        let mut edits = vec![];
        edits.push(Edit { start: whole.start, end: whole.start, rep: format!("{{ let mut {idx}__n: usize = 0; ") });
        edits.push(Edit { start: br(&*f.pat).start, end: br(&*f.pat).end, rep: item });
        // `E.enumerate()` -> `E`
        edits.push(Edit { start: recv.end, end: br(mc).end, rep: String::new() });
        edits.push(Edit { start: open + 1, end: open + 1, rep: format!(" let {idx} = {idx}__n; {idx}__n += 1;") });
        edits.push(Edit { start: whole.end, end: whole.end, rep: " }".into() });
        self.found = Some(edits);
    }
}

fn r17_pass(mut text: String, is_method: bool, cnt: &mut Counters) -> Result<String, String> {
    for _ in 0..100 {
        let edits;
        {
            let mut f = R17Find { found: None, err: None, text: &text };
            if is_method {
                let ast: syn::ImplItemFn = syn::parse_str(&text).map_err(|e| format!("reparse (R17): {e}"))?;
                f.visit_impl_item_fn(&ast);
            } else {
                let ast: syn::ItemFn = syn::parse_str(&text).map_err(|e| format!("reparse (R17): {e}"))?;
                f.visit_item_fn(&ast);
            }
            if let Some(e) = f.err {
                return Err(e);
            }
            edits = f.found;
        }
        match edits {
            None => return Ok(text),
            Some(e) => {
                cnt.bump("R17_enumerate");
                text = apply_edits(&text, e);
            }
        }
    }
    Err("R17 did not converge".into())
}

fn eat_ws(text: &str, mut i: usize) -> usize {
    let b = text.as_bytes();
    while i < b.len() && (b[i] as char).is_whitespace() {
        i += 1;
    }
    i
}

// ------------------------------------------------------------------------------------------
// pass 3: splices (R7)
// ------------------------------------------------------------------------------------------
#[derive(Default)]
struct Anchors {
    loops: Vec<(usize /*body open*/, Option<usize> /*for: expr start*/)>,
    closures: Vec<(usize /*head start*/, usize /*body start*/, usize /*body end*/, bool /*block*/)>,
    stmts: Vec<(usize, usize)>,
    /// nested `fn` items declared inside the body (source order): start of their block
    innerfns: Vec<usize>,
}
impl<'ast> Visit<'ast> for Anchors {
    fn visit_expr(&mut self, e: &'ast Expr) {
        match e {
            Expr::While(w) => self.loops.push((br(&w.body).start, None)),
            Expr::Loop(l) => self.loops.push((br(&l.body).start, None)),
            Expr::ForLoop(f) => self.loops.push((br(&f.body).start, Some(br(&*f.expr).start))),
            Expr::Closure(c) => {
                let b = br(&*c.body);
                self.closures.push((br(&c.or1_token).start, b.start, b.end, matches!(&*c.body, Expr::Block(_))));
            }
            _ => {}
        }
        visit::visit_expr(self, e);
    }
    fn visit_stmt(&mut self, s: &'ast Stmt) {
        let r = br(s);
        self.stmts.push((r.start, r.end));
        if let Stmt::Item(syn::Item::Fn(f)) = s {
            self.innerfns.push(br(&*f.block).start);
        }
        visit::visit_stmt(self, s);
    }
}

fn norm(s: &str) -> String {
    s.split_whitespace().collect::<Vec<_>>().join(" ")
}

#[derive(Default, Debug)]
pub struct FnSpec {
    pub file: String,
    pub path: String, // Type::name | Type:Trait::name | ::name
    pub rename: Option<String>,
    pub props: Vec<String>,
    pub ret: Option<String>,
    pub spec: String,
    pub loops: Vec<(usize, String)>,
    pub forghost: Vec<(usize, String)>,
    pub closures: Vec<(usize, Option<String>, String)>,
    /// //@innerfn N: requires/ensures of the N-th nested `fn` item of the body (R7)
    pub innerfns: Vec<(usize, String)>,
    pub anchors: Vec<(bool /*before*/, usize, String, String)>,
    pub external: bool,
    pub nocanary: bool,
    pub nopub: bool,
    pub r4result: HashSet<String>,
    pub attrs: Vec<String>,
    pub tail: Option<String>,
    pub head: Option<String>,
    pub drops: Vec<(usize, String)>,
    pub open: Vec<String>,
    pub hide: Vec<String>,
    pub guards: bool,
    pub refpats: bool,
    pub stubs: Vec<(usize, String, String)>, // R13: (n, let-anchor, stand-in call)
    pub enumerate: bool,                     // R17
    pub inline_eat_while: Vec<usize>,        // R15: ordinals of `X.eat_while(<closure literal>)` calls to inline
}

fn check_ghost_only(what: &str, s: &str) -> Result<(), String> {
    // spliced statement-level text must be ghost: proof blocks, asserts, ghost lets, broadcast uses
    let t = s.trim_start();
    if t.is_empty() {
        return Ok(());
    }
    let ok = ["proof {", "proof{", "assert(", "assert ", "let ghost ", "let tracked ", "broadcast use", "assume(", "hide("];
    if ok.iter().any(|p| t.starts_with(p)) {
        Ok(())
    } else {
        Err(format!("{what}: spliced text must be ghost code, got `{}`", t.lines().next().unwrap_or("")))
    }
}

fn requires_section(spec: &str) -> String {
    let kws = ["requires", "ensures", "decreases", "recommends", "returns", "no_unwind", "opens_invariants", "default_ensures"];
    let mut out = String::new();
    let mut on = false;
    for line in spec.lines() {
        let t = line.trim_start();
        let first: String = t.chars().take_while(|c| c.is_alphanumeric() || *c == '_').collect();
        if kws.contains(&first.as_str()) {
            on = first == "requires";
        }
        if on {
            out.push_str(line);
            out.push('\n');
        }
    }
    out
}

pub struct Emitted {
    pub text: String,
    pub canary: Option<String>,
    pub src_line: usize,
}

pub struct Source {
    pub text: String,
    pub ast: syn::File,
}

pub struct Ctx<'a> {
    pub cfg: &'a Cfg,
    pub srcdir: String,
    pub sources: HashMap<String, Source>,
    pub cnt: Counters,
    pub dropped: Vec<String>,
}

impl<'a> Ctx<'a> {
    fn load(&mut self, file: &str) -> Result<(), String> {
        if self.sources.contains_key(file) {
            return Ok(());
        }
        let p = format!("{}/{}", self.srcdir, file);
        let text = std::fs::read_to_string(&p).map_err(|e| format!("cannot read {p}: {e}"))?;
        let ast = syn::parse_file(&text).map_err(|e| format!("cannot parse {p}: {e}"))?;
        self.sources.insert(file.to_string(), Source { text, ast });
        Ok(())
    }

    fn attrs_on(&self, attrs: &[Attribute]) -> Result<bool, String> {
        for a in attrs {
            if a.path().is_ident("cfg") {
                if let syn::Meta::List(l) = &a.meta {
                    if !self.cfg.eval_tokens(l.tokens.clone())? {
                        return Ok(false);
                    }
                }
            }
        }
        Ok(true)
    }

    /// pass 1 on a standalone item text
    fn clean(&mut self, text: &str, kind: ItemKind, derive_override: Option<String>, make_pub: bool) -> Result<String, String> {
        let mut c = Clean { cfg: self.cfg, text, edits: vec![], err: None, derive_override, keeps_default: false, cnt: &mut self.cnt };
        match kind {
            ItemKind::Method => {
                let ast: syn::ImplItemFn = syn::parse_str(text).map_err(|e| format!("reparse: {e}"))?;
                if make_pub {
                    c.make_pub(&ast.vis, br(&ast.sig).start);
                }
                c.visit_impl_item_fn(&ast);
            }
            ItemKind::Item => {
                let ast: syn::Item = syn::parse_str(text).map_err(|e| format!("reparse: {e}"))?;
                match &ast {
                    syn::Item::Struct(s) => {
                        if make_pub {
                            c.make_pub(&s.vis, br(&s.struct_token).start);
                        }
                        c.visit_item_struct(s);
                    }
                    syn::Item::Enum(s) => {
                        if make_pub {
                            c.make_pub(&s.vis, br(&s.enum_token).start);
                        }
                        c.visit_item_enum(s);
                    }
                    syn::Item::Const(s) => {
                        if make_pub {
                            c.make_pub(&s.vis, br(&s.const_token).start);
                        }
                        c.visit_item_const(s);
                    }
                    syn::Item::Type(s) => {
                        if make_pub {
                            c.make_pub(&s.vis, br(&s.type_token).start);
                        }
                        c.visit_item_type(s);
                    }
                    syn::Item::Fn(s) => {
                        if make_pub {
                            c.make_pub(&s.vis, br(&s.sig).start);
                        }
                        c.visit_item_fn(s);
                    }
                    _ => return Err("unsupported item kind".into()),
                }
            }
        }
        if let Some(e) = c.err {
            return Err(e);
        }
        let edits = c.edits;
        Ok(apply_edits(text, edits))
    }

    pub fn extract_item(&mut self, file: &str, name: &str, derive_override: Option<String>) -> Result<Emitted, String> {
        self.load(file)?;
        let src = &self.sources[file];
        let mut found: Option<(Range<usize>, usize)> = None;
        for it in &src.ast.items {
            let (id, attrs): (Option<String>, &[Attribute]) = match it {
                syn::Item::Struct(s) => (Some(s.ident.to_string()), &s.attrs),
                syn::Item::Enum(s) => (Some(s.ident.to_string()), &s.attrs),
                syn::Item::Const(s) => (Some(s.ident.to_string()), &s.attrs),
                syn::Item::Type(s) => (Some(s.ident.to_string()), &s.attrs),
                _ => (None, &[]),
            };
            if id.as_deref() == Some(name) && self.attrs_on(attrs)? {
                if found.is_some() {
                    return Err(format!("item {name} in {file} is ambiguous"));
                }
                found = Some((br(it), it.span().start().line));
            }
        }
        let Some((r, line)) = found else { return Err(format!("lost anchor: item `{name}` not found in {file}")) };
        let text = src.text[r].to_string();
        let out = self.clean(&text, ItemKind::Item, derive_override, true)?;
        Ok(Emitted { text: out, canary: None, src_line: line })
    }

    /// names of the top-level `const` items of a source file that are active in this configuration
    pub fn top_consts(&mut self, file: &str) -> Result<Vec<String>, String> {
        if file.starts_with('@') {
            return Ok(vec![]);
        }
        self.load(file)?;
        let mut out = vec![];
        let items: Vec<(String, Vec<Attribute>)> = self.sources[file].ast.items.iter().filter_map(|it| match it {
            syn::Item::Const(c) => Some((c.ident.to_string(), c.attrs.clone())),
            _ => None,
        }).collect();
        for (n, attrs) in items {
            if self.attrs_on(&attrs)? {
                out.push(n);
            }
        }
        Ok(out)
    }

    pub fn inherent_methods(&mut self, file: &str, ty: &str) -> Result<Vec<String>, String> {
        self.load(file)?;
        let mut out = vec![];
        let src = &self.sources[file];
        for it in &src.ast.items {
            if let syn::Item::Impl(im) = it {
                if im.trait_.is_some() || !self.attrs_on(&im.attrs)? {
                    continue;
                }
                let self_ty = match &*im.self_ty {
                    syn::Type::Path(p) => p.path.segments.last().map(|s| s.ident.to_string()).unwrap_or_default(),
                    _ => String::new(),
                };
                if self_ty != ty {
                    continue;
                }
                for ii in &im.items {
                    if let syn::ImplItem::Fn(f) = ii {
                        if self.attrs_on(&f.attrs)? {
                            out.push(f.sig.ident.to_string());
                        }
                    }
                }
            }
        }
        Ok(out)
    }

    /// R15: the definition of `Cursor::eat_while` in cursor.rs of the tree being extracted (pass 1 applied)
    fn eat_while_def(&mut self) -> Result<EatWhileDef, String> {
        const FILE: &str = "cursor.rs";
        self.load(FILE)?;
        let src = &self.sources[FILE];
        let mut found: Option<Range<usize>> = None;
        for it in &src.ast.items {
            if let syn::Item::Impl(im) = it {
                if im.trait_.is_some() || !self.attrs_on(&im.attrs)? {
                    continue;
                }
                let self_ty = match &*im.self_ty {
                    syn::Type::Path(p) => p.path.segments.last().map(|s| s.ident.to_string()).unwrap_or_default(),
                    _ => String::new(),
                };
                if self_ty != "Cursor" {
                    continue;
                }
                for ii in &im.items {
                    if let syn::ImplItem::Fn(f) = ii {
                        if f.sig.ident == "eat_while" && self.attrs_on(&f.attrs)? {
                            if found.is_some() {
                                return Err("R15: Cursor::eat_while is ambiguous in cursor.rs".into());
                            }
                            found = Some(br(ii));
                        }
                    }
                }
            }
        }
        let Some(r) = found else { return Err("lost anchor: R15: fn `Cursor::eat_while` not found in cursor.rs".into()) };
        let text0 = src.text[r].to_string();
        // pass 1 on the definition (cfg / attributes), without counting its rewrites twice is not possible: they are
        // counted like those of any other extracted text
        let text1 = self.clean(&text0, ItemKind::Method, None, false)?;
        analyse_eat_while(text1)
    }

    pub fn extract_fn(&mut self, fs: &FnSpec) -> Result<Emitted, String> {
        self.load(&fs.file)?;
        let src = &self.sources[&fs.file];
        // locate
        let (ty, tr, name) = parse_fn_path(&fs.path)?;
        let mut found: Option<(Range<usize>, usize)> = None;
        let mut in_trait_impl = false;
        if ty.is_empty() {
            for it in &src.ast.items {
                if let syn::Item::Fn(f) = it {
                    if f.sig.ident == name && self.attrs_on(&f.attrs)? {
                        if found.is_some() {
                            return Err(format!("fn {name} ambiguous in {}", fs.file));
                        }
                        found = Some((br(it), it.span().start().line));
                    }
                }
            }
        } else {
            for it in &src.ast.items {
                if let syn::Item::Impl(im) = it {
                    if !self.attrs_on(&im.attrs)? {
                        continue;
                    }
                    let self_ty = match &*im.self_ty {
                        syn::Type::Path(p) => p.path.segments.last().map(|s| s.ident.to_string()).unwrap_or_default(),
                        _ => String::new(),
                    };
                    let tr_name = im.trait_.as_ref().and_then(|(_, p, _)| {
                        p.segments.last().map(|s| {
                            // From<X> -> "From<X>" normalised without spaces
                            let mut n = s.ident.to_string();
                            if let syn::PathArguments::AngleBracketed(a) = &s.arguments {
                                let args: Vec<String> = a.args.iter().map(|x| norm(&src.text[br(x)]).replace(' ', "")).collect();
                                let _ = write!(n, "<{}>", args.join(","));
                            }
                            n
                        })
                    });
                    if self_ty != ty {
                        continue;
                    }
                    if tr.as_deref() != tr_name.as_deref() {
                        continue;
                    }
                    for ii in &im.items {
                        if let syn::ImplItem::Fn(f) = ii {
                            if f.sig.ident == name && self.attrs_on(&f.attrs)? {
                                if found.is_some() {
                                    return Err(format!("fn {} ambiguous in {}", fs.path, fs.file));
                                }
                                found = Some((br(ii), ii.span().start().line));
                                in_trait_impl = im.trait_.is_some();
                            }
                        }
                    }
                }
            }
        }
        let Some((r, line)) = found else { return Err(format!("lost anchor: fn `{}` not found in {}", fs.path, fs.file)) };
        let is_method = !ty.is_empty();
        let kind = if is_method { ItemKind::Method } else { ItemKind::Item };
        let text0 = src.text[r].to_string();
        // pass 1
        let text1 = self.clean(&text0, kind, None, !in_trait_impl && !fs.nopub)?;
        // (an external_body stub keeps only its signature: the body rewrites are skipped)
        let text1 = mutself_pass(text1, is_method, &mut self.cnt)?;
        // pass 1b (R13): stand-ins for `let` initializers outside Verus' reach
        let text1 = if fs.external || fs.stubs.is_empty() { text1 } else { stub_pass(text1, is_method, &fs.path, &fs.stubs, &mut self.cnt, &mut self.dropped)? };
        // pass 1c (R15): inline Cursor::eat_while (body taken from cursor.rs of the same tree) at the named call sites
        let text1 = if fs.external || fs.inline_eat_while.is_empty() {
            text1
        } else {
            let def = self.eat_while_def()?;
            inline_eat_while_pass(text1, is_method, &fs.path, &fs.inline_eat_while, &def, &mut self.cnt)?
        };
        let text1 = if fs.enumerate && !fs.external { r17_pass(text1, is_method, &mut self.cnt)? } else { text1 };
        // pass 2 (R4)
        let text2 = if fs.external { text1 } else { r4_pass(text1, is_method, &fs.r4result, &mut self.cnt)? };
        let text2 = if fs.guards && !fs.external { r12_pass(text2, is_method, &mut self.cnt)? } else { text2 };
        let text2 = if fs.refpats && !fs.external { r14_pass(text2, is_method, &mut self.cnt)? } else { text2 };
        // pass 3 (R7)
        let (sig_ident, output, block, sig_range, fn_start): (Range<usize>, Option<Range<usize>>, Range<usize>, Range<usize>, usize);
        let tail_range: Option<Range<usize>>;
        let mut an = Anchors::default();
        if is_method {
            let ast: syn::ImplItemFn = syn::parse_str(&text2).map_err(|e| format!("reparse (splice): {e}"))?;
            sig_ident = br(&ast.sig.ident);
            output = match &ast.sig.output {
                syn::ReturnType::Type(_, t) => Some(br(&**t)),
                _ => None,
            };
            block = br(&ast.block);
            sig_range = br(&ast.sig);
            fn_start = br(&ast).start;
            tail_range = match ast.block.stmts.last() { Some(Stmt::Expr(e, None)) => Some(br(e)), _ => None };
            an.visit_block(&ast.block);
        } else {
            let ast: syn::ItemFn = syn::parse_str(&text2).map_err(|e| format!("reparse (splice): {e}"))?;
            sig_ident = br(&ast.sig.ident);
            output = match &ast.sig.output {
                syn::ReturnType::Type(_, t) => Some(br(&**t)),
                _ => None,
            };
            block = br(&*ast.block);
            sig_range = br(&ast.sig);
            fn_start = br(&ast).start;
            tail_range = match ast.block.stmts.last() { Some(Stmt::Expr(e, None)) => Some(br(e)), _ => None };
            an.visit_block(&ast.block);
        }
        let mut edits: Vec<Edit> = vec![];
        let ins = |at: usize, s: String| Edit { start: at, end: at, rep: s };
        for a in &fs.attrs {
            edits.push(ins(fn_start, format!("{a}\n    ")));
        }
        if let Some(n) = &fs.rename {
            edits.push(Edit { start: sig_ident.start, end: sig_ident.end, rep: n.clone() });
        }
        if let Some(rn) = &fs.ret {
            match &output {
                Some(o) => edits.push(Edit { start: o.start, end: o.end, rep: format!("({rn}: {})", &text2[o.clone()]) }),
                None => return Err(format!("{}: //@ret on a function without return type", fs.path)),
            }
        }
        if !fs.spec.trim().is_empty() && !fs.external {
            self.cnt.bump("R7_spec");
            edits.push(ins(block.start, format!("\n{}\n    ", fs.spec.trim_end())));
        }
        if fs.external {
            edits.push(ins(fn_start, "#[verifier::external_body]\n    ".into()));
            edits.push(Edit { start: block.start, end: block.end, rep: format!("\n{}\n    {{ unimplemented!() }}", fs.spec.trim_end()) });
        } else {
            for (n, s) in &fs.loops {
                let Some((at, _)) = an.loops.get(*n) else { return Err(format!("lost anchor: {} has no loop #{n}", fs.path)) };
                self.cnt.bump("R7_loop");
                edits.push(ins(*at, format!("\n{}\n        ", s.trim_end())));
            }
            for (n, id) in &fs.forghost {
                let Some((_, Some(at))) = an.loops.get(*n) else { return Err(format!("lost anchor: {} loop #{n} is not a for loop", fs.path)) };
                edits.push(ins(*at, format!("{id}: ")));
            }
            for (n, sig, s) in &fs.closures {
                let Some((hs, bs, be, is_block)) = an.closures.get(*n) else { return Err(format!("lost anchor: {} has no closure #{n}", fs.path)) };
                self.cnt.bump("R7_closure");
                if let Some(sig) = sig {
                    edits.push(Edit { start: *hs, end: *bs, rep: format!("{sig}\n{}\n", s.trim_end()) });
                } else {
                    edits.push(ins(*bs, format!("\n{}\n", s.trim_end())));
                }
                if !is_block {
                    edits.push(ins(*bs, "{ ".into()));
                    edits.push(ins(*be, " }".into()));
                }
            }
            if !fs.hide.is_empty() {
                // hide (fuel 0) ghost definitions this function's proof never needs to unfold (ghost only; a Verus
                // function header: it must be the first thing in the body; it can only remove facts from the context)
                let r: Vec<String> = fs.hide.iter().map(|x| format!("hide({x});")).collect();
                self.cnt.bump("R7_hint");
                edits.push(ins(block.start + 1, format!("\n        {}", r.join(" "))));
            }
            for (n, s) in &fs.innerfns {
                let Some(at) = an.innerfns.get(*n) else { return Err(format!("lost anchor: {} has no nested fn #{n}", fs.path)) };
                self.cnt.bump("R7_innerfn");
                edits.push(ins(*at, format!("\n{}\n        ", s.trim_end())));
            }
            if !fs.open.is_empty() {
                // reveal opaque ghost definitions for this function's proof (ghost only)
                let r: Vec<String> = fs.open.iter().map(|x| format!("reveal({x});")).collect();
                edits.push(ins(block.start + 1, format!("\n        proof {{ {} }}", r.join(" "))));
            }
            if let Some(h) = &fs.head {
                // ghost code at the start of the body (R7), after the reveals
                check_ghost_only(&fs.path, h)?;
                self.cnt.bump("R7_hint");
                edits.push(ins(block.start + 1, format!("\n        {}", h.trim_end())));
            }
            for (k, anchor) in &fs.drops {
                // R11: a debug-only statement Verus cannot express (e.g. a debug_assert! whose condition calls
                // allocating exec functions) is dropped; every dropped statement is listed in the map
                let want = norm(anchor);
                let mut hits = an.stmts.iter().filter(|(a, b)| norm(&text2[*a..*b]).starts_with(&want));
                let Some((a, b)) = hits.nth(*k) else {
                    if !self.cfg.on.contains("debug_assertions") {
                        continue; // already configured out by R2
                    }
                    return Err(format!("lost anchor: {}: statement #{k} starting with `{anchor}` not found (drop)", fs.path));
                };
                let txt = norm(&text2[*a..*b]);
                if !(txt.contains("debug_assert") || txt.starts_with("#[cfg(debug_assertions)]")) {
                    return Err(format!("{}: //@drop only applies to debug-only statements", fs.path));
                }
                self.cnt.bump("R11_drop_debug_stmt");
                self.dropped.push(format!("{}: {}", fs.path, &txt[..txt.len().min(160)]));
                edits.push(Edit { start: *a, end: *b, rep: "/* R11: debug-only statement dropped */".into() });
            }
            for (before, k, anchor, s) in &fs.anchors {
                check_ghost_only(&fs.path, s)?;
                let want = norm(anchor);
                let mut hits = an.stmts.iter().filter(|(a, b)| norm(&text2[*a..*b]).starts_with(&want));
                let Some((a, b)) = hits.nth(*k) else {
                    if LENIENT_ANCHORS.get().copied().unwrap_or(false) {
                        // `--lenient-anchors`: a statement-level proof HINT whose anchor is gone is left out (counted and
                        // listed); the contract itself (requires/ensures/loop invariants) is never left out. A run that
                        // still verifies is a proof; a run that fails decides nothing (the driver treats it as undecided)
                        self.cnt.bump("lenient_skipped_hint");
                        self.dropped.push(format!("{}: hint skipped, anchor `{}` #{k} not found", fs.path, anchor));
                        continue;
                    }
                    return Err(format!("lost anchor: {}: statement #{k} starting with `{anchor}` not found", fs.path));
                };
                self.cnt.bump("R7_hint");
                if *before {
                    edits.push(ins(*a, format!("{}\n        ", s.trim_end())));
                } else {
                    edits.push(ins(*b, format!("\n        {}", s.trim_end())));
                }
            }
        }
        if let Some(tail) = &fs.tail {
            // R9: bind the tail expression so that ghost code can follow the last call:
            //     `E`  ->  `let r__ = E; <ghost>; r__`
            check_ghost_only(&fs.path, tail)?;
            let Some(tr) = tail_range.clone() else { return Err(format!("lost anchor: {} has no tail expression", fs.path)) };
            self.cnt.bump("R9_tail_bind");
            edits.push(ins(tr.start, "let r__ = ".into()));
            edits.push(ins(tr.end, format!(";\n        {}\n        r__", tail.trim_end())));
        }
        // stable order for same-position insertions: keep push order (sort is stable)
        let out = apply_edits(&text2, edits);

        // canary: same signature + same `requires`, body must be refuted
        let req = requires_section(&fs.spec);
        let canary = if !req.trim().is_empty() && !in_trait_impl && !fs.nocanary {
            let final_name = fs.rename.clone().unwrap_or_else(|| name.clone());
            let mut sig = String::new();
            sig.push_str(&text2[fn_start..sig_ident.start]);
            // strip attributes/docs before the signature start
            let pre = &text2[sig_range.start..sig_ident.start];
            sig.clear();
            // visibility lives before sig_range.start
            let vis_part = text2[fn_start..sig_range.start].rsplit('\n').next().unwrap_or("").trim_start().to_string();
            let vis_part = if vis_part.starts_with('#') || vis_part.starts_with("//") { String::new() } else { vis_part };
            sig.push_str(&vis_part);
            sig.push_str(pre);
            let _ = write!(sig, "{final_name}__canary");
            sig.push_str(&text2[sig_ident.end..sig_range.end]);
            Some(format!("{sig}\n{req}    {{ proof {{ assert(false); }} vstd::pervasive::unreached() }}"))
        } else {
            None
        };
        Ok(Emitted { text: out, canary, src_line: line })
    }
}

#[derive(Clone, Copy)]
enum ItemKind {
    Method,
    Item,
}

fn parse_fn_path(p: &str) -> Result<(String, Option<String>, String), String> {
    // Type::name | Type:Trait::name | ::name
    let Some(idx) = p.rfind("::") else { return Err(format!("bad fn path `{p}`")) };
    let (head, name) = (&p[..idx], &p[idx + 2..]);
    if head.is_empty() {
        return Ok((String::new(), None, name.to_string()));
    }
    if let Some((t, tr)) = head.split_once(':') {
        Ok((t.to_string(), Some(tr.to_string()), name.to_string()))
    } else {
        Ok((head.to_string(), None, name.to_string()))
    }
}

// ------------------------------------------------------------------------------------------
// template processing
// ------------------------------------------------------------------------------------------
struct MapEntry {
    gen_start: usize,
    gen_end: usize,
    kind: &'static str,
    name: String,
    file: String,
    src_line: usize,
    props: Vec<String>,
}

struct Gen<'a> {
    ctx: Ctx<'a>,
    contracts: String,
    out: String,
    map: Vec<MapEntry>,
    trusted: Vec<String>,
    assumed_depth: usize,
    proved_elsewhere: Vec<String>,
    emitted_fns: HashSet<String>,
    included: HashSet<String>,
    deferred_consts: Vec<(String, String)>,
}

fn kv<'x>(parts: &[&'x str], key: &str) -> Option<&'x str> {
    parts.iter().find_map(|p| p.strip_prefix(key).and_then(|r| r.strip_prefix('=')))
}

impl<'a> Gen<'a> {
    fn cur_line(&self) -> usize {
        self.out.matches('\n').count() + 1
    }
    fn emit(&mut self, s: &str) {
        self.out.push_str(s);
        if !s.ends_with('\n') {
            self.out.push('\n');
        }
    }


    /// resolve //@if <cfg-pred> / //@iffield <file> <Struct> <field> / //@else / //@endif (anywhere, also
    /// inside //@fn blocks) before directives are interpreted
    fn preprocess<'t>(&mut self, lines: &[&'t str]) -> Result<Vec<&'t str>, String> {
        let mut out = Vec::new();
        let mut stack: Vec<bool> = vec![];
        for line in lines {
            let t = line.trim_start();
            if let Some(d) = t.strip_prefix("//@") {
                let parts: Vec<&str> = d.split_whitespace().collect();
                match parts.first().copied().unwrap_or("") {
                    "if" => {
                        let v = self.ctx.cfg.eval_tokens(parts[1..].join(" ").parse().map_err(|_| "bad //@if")?)?;
                        stack.push(v);
                        continue;
                    }
                    "iffield" => {
                        let (f, st, fld) = (parts.get(1).ok_or("//@iffield file struct field")?, parts.get(2).ok_or("//@iffield")?, parts.get(3).ok_or("//@iffield")?);
                        self.ctx.load(f)?;
                        let mut has = false;
                        for it in &self.ctx.sources[*f].ast.items {
                            if let syn::Item::Struct(sd) = it {
                                if sd.ident == st {
                                    for fd in &sd.fields {
                                        if fd.ident.as_ref().map(|i| i == fld).unwrap_or(false) && self.ctx.attrs_on(&fd.attrs)? {
                                            has = true;
                                        }
                                    }
                                }
                            }
                        }
                        stack.push(has);
                        continue;
                    }
                    "else" => {
                        let v = stack.pop().ok_or("//@else without //@if")?;
                        stack.push(!v);
                        continue;
                    }
                    "endif" => {
                        stack.pop().ok_or("//@endif without //@if")?;
                        continue;
                    }
                    _ => {}
                }
            }
            if stack.iter().all(|b| *b) {
                out.push(*line);
            }
        }
        if !stack.is_empty() {
            return Err("unterminated //@if".into());
        }
        Ok(out)
    }

    fn process(&mut self, path: &str, depth: usize) -> Result<(), String> {
        if depth > 8 {
            return Err("include depth".into());
        }
        let text = std::fs::read_to_string(path).map_err(|e| format!("cannot read template {path}: {e}"))?;
        let raw_lines: Vec<&str> = text.lines().collect();
        let lines: Vec<&str> = self.preprocess(&raw_lines)?;
        let mut i = 0usize;
        let skip_stack: Vec<bool> = vec![]; // conditionals are resolved by preprocess()
        while i < lines.len() {
            let line = lines[i];
            let t = line.trim_start();
            let emitting = skip_stack.iter().all(|b| *b);
            if let Some(d) = t.strip_prefix("//@") {
                let parts: Vec<&str> = d.split_whitespace().collect();
                let cmd = parts.first().copied().unwrap_or("");
                match cmd {
                    _ if !emitting => {
                        // skip whole fn blocks when not emitting
                        if cmd == "fn" {
                            while i < lines.len() && lines[i].trim() != "//@end" {
                                i += 1;
                            }
                        }
                    }
                    "include" | "needs" => {
                        let rel = parts.get(1).ok_or("//@include needs a path")?.to_string();
                        // a fragment enters a unit once: `//@needs f` (written inside a fragment whose contracts mention
                        // f's vocabulary) includes f `assumed` unless the unit has it already
                        if !self.included.insert(rel.clone()) {
                            i += 1;
                            continue;
                        }
                        let p = format!("{}/{}", self.contracts, rel);
                        // `//@include f assumed`: the functions of this fragment are proved in another unit of the
                        // same check; here they appear with their contract only (external_body), to keep queries small
                        let assumed = parts.contains(&"assumed") || cmd == "needs";
                        if assumed {
                            self.assumed_depth += 1;
                        }
                        let r = self.process(&p, depth + 1);
                        if assumed {
                            self.assumed_depth -= 1;
                        }
                        r?;
                    }
                    "item" => {
                        let file = parts.get(1).ok_or("//@item file name")?;
                        let name = parts.get(2).ok_or("//@item file name")?;
                        let der = kv(&parts, "derive").map(|s| s.replace(',', ", "));
                        let e = self.ctx.extract_item(file, name, der)?;
                        let start = self.cur_line();
                        self.emit(&e.text);
                        let end = self.cur_line();
                        self.map.push(MapEntry { gen_start: start, gen_end: end, kind: "item", name: (*name).into(), file: (*file).into(), src_line: e.src_line, props: vec![] });
                    }
                    "fn" => {
                        let mut fs = FnSpec { file: parts.get(1).ok_or("//@fn file path")?.to_string(), path: parts.get(2).ok_or("//@fn file path")?.to_string(), ..Default::default() };
                        if let Some(p) = kv(&parts, "props") {
                            fs.props = p.split(',').map(String::from).collect();
                        }
                        fs.rename = kv(&parts, "name").map(String::from);
                        fs.external = parts.contains(&"external");
                        let real_external = fs.external;
                        if self.assumed_depth > 0 {
                            fs.external = true;
                        }
                        fs.nocanary = parts.contains(&"nocanary") || self.assumed_depth > 0;
                        fs.nopub = parts.contains(&"nopub");
                        // sub-blocks
                        i += 1;
                        #[derive(PartialEq)]
                        enum Cur {
                            None,
                            Spec,
                            Loop(usize),
                            Closure(usize),
                            InnerFn(usize),
                            Anchor(usize),
                            Tail,
                            Head,
                        }
                        let mut cur = Cur::None;
                        let mut ended = false;
                        while i < lines.len() {
                            let l = lines[i];
                            let lt = l.trim_start();
                            if let Some(d) = lt.strip_prefix("//@") {
                                let ps: Vec<&str> = d.split_whitespace().collect();
                                match ps.first().copied().unwrap_or("") {
                                    "end" => {
                                        ended = true;
                                        break;
                                    }
                                    "ret" => fs.ret = Some(ps.get(1).ok_or("//@ret name")?.to_string()),
                                    "spec" => cur = Cur::Spec,
                                    "tail" => {
                                        fs.tail = Some(String::new());
                                        cur = Cur::Tail;
                                    }
                                    "head" => {
                                        fs.head = Some(String::new());
                                        cur = Cur::Head;
                                    }
                                    "attr" => fs.attrs.push(d.trim_start().strip_prefix("attr").unwrap_or("").trim().to_string()),
                                    "r4result" => {
                                        for m in &ps[1..] {
                                            fs.r4result.insert(m.to_string());
                                        }
                                    }
                                    "loop" => {
                                        let n: usize = ps.get(1).and_then(|x| x.parse().ok()).ok_or("//@loop N")?;
                                        fs.loops.push((n, String::new()));
                                        cur = Cur::Loop(fs.loops.len() - 1);
                                    }
                                    "guards" => fs.guards = true,
                                    "refpats" => fs.refpats = true,
                                    "enumerate" => fs.enumerate = true,
                                    "open" => {
                                        for m in ps[1..].iter().flat_map(|x| x.split(',')) {
                                            if !m.is_empty() {
                                                fs.open.push(m.to_string());
                                            }
                                        }
                                    }
                                    "hide" => {
                                        for m in ps[1..].iter().flat_map(|x| x.split(',')) {
                                            if !m.is_empty() {
                                                fs.hide.push(m.to_string());
                                            }
                                        }
                                    }
                                    "drop" => {
                                        let n: usize = ps.get(1).and_then(|x| x.parse().ok()).ok_or("//@drop N anchor")?;
                                        let rest = d.trim_start();
                                        let rest = rest["drop".len()..].trim_start();
                                        let rest = rest[ps[1].len()..].trim();
                                        fs.drops.push((n, rest.to_string()));
                                    }
                                    "stub" => {
                                        // //@stub N <let-anchor> => <stand_in(args)>
                                        let n: usize = ps.get(1).and_then(|x| x.parse().ok()).ok_or("//@stub N <let-anchor> => <call>")?;
                                        let rest = d.trim_start();
                                        let rest = rest["stub".len()..].trim_start();
                                        let rest = rest[ps[1].len()..].trim();
                                        let (anchor, call) = rest.split_once("=>").ok_or("//@stub N <let-anchor> => <call>")?;
                                        fs.stubs.push((n, anchor.trim().to_string(), call.trim().to_string()));
                                    }
                                    "inline_eat_while" => {
                                        let n: usize = ps.get(1).and_then(|x| x.parse().ok()).ok_or("//@inline_eat_while N")?;
                                        fs.inline_eat_while.push(n);
                                    }
                                    "forghost" => {
                                        let n: usize = ps.get(1).and_then(|x| x.parse().ok()).ok_or("//@forghost N id")?;
                                        fs.forghost.push((n, ps.get(2).ok_or("//@forghost N id")?.to_string()));
                                    }
                                    "closure" => {
                                        let n: usize = ps.get(1).and_then(|x| x.parse().ok()).ok_or("//@closure N")?;
                                        let sig = d.find("sig=").map(|k| d[k + 4..].trim().to_string());
                                        fs.closures.push((n, sig, String::new()));
                                        cur = Cur::Closure(fs.closures.len() - 1);
                                    }
                                    "innerfn" => {
                                        let n: usize = ps.get(1).and_then(|x| x.parse().ok()).ok_or("//@innerfn N")?;
                                        fs.innerfns.push((n, String::new()));
                                        cur = Cur::InnerFn(fs.innerfns.len() - 1);
                                    }
                                    c @ ("before" | "after") => {
                                        let n: usize = ps.get(1).and_then(|x| x.parse().ok()).ok_or("//@before N anchor")?;
                                        let rest = d.trim_start();
                                        let rest = rest[c.len()..].trim_start();
                                        let rest = rest[ps[1].len()..].trim();
                                        fs.anchors.push((c == "before", n, rest.to_string(), String::new()));
                                        cur = Cur::Anchor(fs.anchors.len() - 1);
                                    }
                                    other => return Err(format!("{path}:{}: unknown sub-directive `{other}`", i + 1)),
                                }
                            } else {
                                let target: Option<&mut String> = match cur {
                                    Cur::None => None,
                                    Cur::Spec => Some(&mut fs.spec),
                                    Cur::Loop(k) => Some(&mut fs.loops[k].1),
                                    Cur::Closure(k) => Some(&mut fs.closures[k].2),
                                    Cur::InnerFn(k) => Some(&mut fs.innerfns[k].1),
                                    Cur::Anchor(k) => Some(&mut fs.anchors[k].3),
                                    Cur::Tail => fs.tail.as_mut(),
                                    Cur::Head => fs.head.as_mut(),
                                };
                                if let Some(tg) = target {
                                    tg.push_str(l);
                                    tg.push('\n');
                                } else if !lt.is_empty() {
                                    return Err(format!("{path}:{}: text outside a sub-block of //@fn", i + 1));
                                }
                            }
                            i += 1;
                        }
                        if !ended {
                            return Err(format!("{path}: //@fn {} without //@end", fs.path));
                        }
                        let e = self.ctx.extract_fn(&fs)?;
                        self.emitted_fns.insert(fs.path.clone());
                        // R16: a top-level `const` of the same file that the body names and the unit does not have yet is
                        // copied too (counted): a new constant in a function under contract is code, not a lost anchor
                        if !fs.external {
                            for c in self.ctx.top_consts(&fs.file)? {
                                let named = e.text.match_indices(c.as_str()).any(|(k, _)| {
                                    let b = e.text.as_bytes();
                                    let before = k == 0 || !(b[k - 1].is_ascii_alphanumeric() || b[k - 1] == b'_');
                                    let after = k + c.len() >= b.len() || !(b[k + c.len()].is_ascii_alphanumeric() || b[k + c.len()] == b'_');
                                    before && after
                                });
                                let have = self.out.contains(&format!("const {c}:")) || self.out.contains(&format!("const {c} :"));
                                if named && !have {
                                    if self.deferred_consts.iter().any(|(n, _)| n == &c) {
                                        continue;
                                    }
                                    if let Ok(it) = self.ctx.extract_item(&fs.file, &c, None) {
                                        self.ctx.cnt.bump("R16_auto_const");
                                        if fs.path.starts_with("::") {
                                            // a free function: module level, the constant can go right before it
                                            self.emit(&it.text);
                                        } else {
                                            // a method: we are inside an `impl` block; the constant goes to module level at
                                            // the end of the verus! block
                                            self.deferred_consts.push((c.clone(), it.text.clone()));
                                        }
                                    }
                                }
                            }
                        }
                        let disp = fs.rename.clone().map(|n| format!("{} (as {n})", fs.path)).unwrap_or(fs.path.clone());
                        let start = self.cur_line();
                        self.emit(&format!("    // <<< {}:{} {}", fs.file, e.src_line, fs.path));
                        self.emit(&format!("    {}", e.text));
                        let end = self.cur_line();
                        let kind = if real_external { "external" } else if fs.external { "assumed_here" } else { "fn" };
                        self.map.push(MapEntry { gen_start: start, gen_end: end, kind, name: disp.clone(), file: fs.file.clone(), src_line: e.src_line, props: fs.props.clone() });
                        if fs.external && !real_external {
                            self.proved_elsewhere.push(fs.path.clone());
                        }
                        if real_external {
                            self.trusted.push(format!("external_body (assumed contract): {} [{}:{}]", fs.path, fs.file, e.src_line));
                        }
                        if let Some(c) = e.canary {
                            let start = self.cur_line();
                            self.emit(&format!("    {c}"));
                            let end = self.cur_line();
                            self.map.push(MapEntry { gen_start: start, gen_end: end, kind: "canary", name: disp, file: fs.file.clone(), src_line: e.src_line, props: vec![] });
                        }
                    }
                    "rest" => {
                        // every method of the inherent impl blocks of <Type> in <file> that this unit has not emitted
                        // appears as an external_body stub WITHOUT any contract (nothing is assumed about it, nothing
                        // is proved): a caller inside the unit learns nothing from calling it
                        let file = parts.get(1).ok_or("//@rest file Type")?.to_string();
                        let ty = parts.get(2).ok_or("//@rest file Type")?.to_string();
                        let names = self.ctx.inherent_methods(&file, &ty)?;
                        let mut n = 0usize;
                        for name in names {
                            let path = format!("{ty}::{name}");
                            if self.emitted_fns.contains(&path) {
                                continue;
                            }
                            let fs = FnSpec { file: file.clone(), path: path.clone(), external: true, nocanary: true, ..Default::default() };
                            let e = self.ctx.extract_fn(&fs)?;
                            self.emitted_fns.insert(path.clone());
                            let start = self.cur_line();
                            self.emit(&format!("    // <<< {}:{} {} (stub without contract)", file, e.src_line, path));
                            self.emit(&format!("    {}", e.text));
                            let end = self.cur_line();
                            self.map.push(MapEntry { gen_start: start, gen_end: end, kind: "stub", name: path, file: file.clone(), src_line: e.src_line, props: vec![] });
                            n += 1;
                        }
                        self.trusted.push(format!("{n} other methods of {ty} appear as external_body stubs without any contract (not verified, nothing assumed)"));
                    }
                    "trusted" => {
                        self.trusted.push(d.trim_start().strip_prefix("trusted").unwrap_or("").trim().to_string());
                    }
                    "expanded" => self.expanded_directive(&parts)?,
                    "phf_spec" => self.phf_spec_directive(&parts)?,
                    // `//@unless_expanded <Name>` ... `//@endunless`: template text used only while <Name> has NOT been
                    // taken from the expansion by an earlier //@expanded (stand-in declarations of generated items)
                    "unless_expanded" => {
                        let name = parts.get(1).ok_or("//@unless_expanded <Name>")?;
                        if self.emitted_fns.contains(&format!("{EXPANDED_FILE}:{name}")) {
                            while i < lines.len() && lines[i].trim() != "//@endunless" {
                                i += 1;
                            }
                            if i >= lines.len() {
                                return Err(format!("{path}: //@unless_expanded without //@endunless"));
                            }
                        }
                    }
                    "endunless" => {}
                    other => return Err(format!("{path}:{}: unknown directive `{other}`", i + 1)),
                }
            } else if emitting {
                if depth == 0 && line.trim_start().starts_with("} // verus!") {
                    let d: Vec<(String, String)> = std::mem::take(&mut self.deferred_consts);
                    for (_, text) in d {
                        self.emit(&text);
                    }
                }
                self.emit(line);
            }
            i += 1;
        }
        Ok(())
    }
}

pub fn gen(opts: &HashMap<String, String>) -> Result<(), String> {
    let get = |k: &str| opts.get(k).cloned().ok_or(format!("missing --{k}"));
    let cfg = Cfg { on: get("cfg")?.split(',').filter(|s| !s.is_empty()).map(String::from).collect() };
    let ctx = Ctx { cfg: &cfg, srcdir: get("src")?, sources: HashMap::new(), cnt: Counters { r: HashMap::new() }, dropped: vec![] };
    let mut g = Gen { ctx, contracts: get("contracts")?, out: String::new(), map: vec![], trusted: vec![], assumed_depth: 0, proved_elsewhere: vec![], emitted_fns: HashSet::new(), included: HashSet::new(), deferred_consts: vec![] };
    let tpl = get("template")?;
    set_expanded_path(opts.get("expanded").cloned());
    let _ = LENIENT_ANCHORS.set(opts.get("lenient-anchors").map(|v| v == "1").unwrap_or(false));
    g.process(&tpl, 0)?;
    std::fs::write(get("out")?, &g.out).map_err(|e| e.to_string())?;
    // map
    let mut regions = Vec::new();
    for m in &g.map {
        regions.push(serde_json::json!({
            "gen_start": m.gen_start, "gen_end": m.gen_end, "kind": m.kind, "name": m.name,
            "file": m.file, "src_line": m.src_line, "props": m.props,
        }));
    }
    // scan of the generated text for trusted constructs
    let mut scan: HashMap<&str, usize> = HashMap::new();
    for pat in ["assume(", "admit(", "external_body", "assume_specification", "#[verifier::external", "unimplemented!"] {
        scan.insert(pat, g.out.matches(pat).count());
    }
    let mut rewrites = serde_json::Map::new();
    let mut keys: Vec<_> = g.ctx.cnt.r.iter().collect();
    keys.sort();
    for (k, v) in keys {
        rewrites.insert((*k).to_string(), serde_json::json!(v));
    }
    let mut cfgv: Vec<&String> = cfg.on.iter().collect();
    cfgv.sort();
    let j = serde_json::json!({
        "template": tpl, "cfg": cfgv, "regions": regions, "trusted": g.trusted,
        "assumption_scan": scan, "rewrites": rewrites, "dropped": g.ctx.dropped, "proved_elsewhere": g.proved_elsewhere,
    });
    std::fs::write(get("map")?, serde_json::to_string_pretty(&j).unwrap()).map_err(|e| e.to_string())?;
    Ok(())
}

// ------------------------------------------------------------------------------------------
// R8: items that exist only as OUTPUT OF THE CRATE'S OWN DERIVE MACROS (e.g. `enum TokenTypeMacroCallOrStat` and its
// `From`/`TryFrom` impls, generated by `sas-lexer-macro`) are taken from the real macro expansion of the same tree
// (`cargo +nightly rustc -p sas-lexer --lib [--features macro_sep] -- -Zunpretty=expanded`, produced by the driver
// and handed over as `vx gen --expanded <file>`), never re-typed.
//
//   //@expanded <ItemName> [derive=A,B,...]
//
// * copies the enum / struct / const / type item `<ItemName>` from the expansion (R1/R3 cleaning as for //@item);
//   `derive=` re-attaches derives, and is accepted only for traits the expansion shows an
//   `#[automatically_derived] impl ..::<Trait> for <ItemName>` for (the expansion holds the derive OUTPUT, the
//   verifier needs the derive ATTRIBUTE to treat the impl structurally);
// * registers the flattened expansion as the pseudo source file `@expanded`, so that functions of generated impl
//   blocks are extracted, contracted and verified by the ordinary machinery:
//       impl From<TokenTypeMacroCallOrStat> for TokenType {
//       //@fn @expanded TokenType:From<TokenTypeMacroCallOrStat>::from props=C06
//       ...
//   (`//@expanded` without an item name only registers the pseudo file).
// * `//@unless_expanded <ItemName>` ... `//@endunless` keeps template text (a stand-in declaration) only in units that
//   have not taken <ItemName> from the expansion.
// Counted as rewrite `R8_expanded_item` (per directive with an item name); a missing --expanded option, an
// unparsable expansion or a missing/ambiguous item is exit 2 (UNDECIDED).
// ------------------------------------------------------------------------------------------
pub const EXPANDED_FILE: &str = "@expanded";
static EXPANDED_PATH: std::sync::OnceLock<Option<String>> = std::sync::OnceLock::new();
static LENIENT_ANCHORS: std::sync::OnceLock<bool> = std::sync::OnceLock::new();

fn set_expanded_path(p: Option<String>) {
    let _ = EXPANDED_PATH.set(p);
}

/// all items of a file, with inline modules (`mod m { .. }`) dissolved, in source order
fn flatten_items<'x>(items: &'x [syn::Item], out: &mut Vec<&'x syn::Item>) {
    for it in items {
        match it {
            syn::Item::Mod(m) => {
                if let Some((_, inner)) = &m.content {
                    flatten_items(inner, out);
                }
            }
            other => out.push(other),
        }
    }
}

/// last path segment of the trait of `#[automatically_derived] impl <Trait> for <ty>` blocks
fn auto_derived_traits(items: &[syn::Item], ty: &str) -> Vec<String> {
    let mut out = vec![];
    for it in items {
        if let syn::Item::Impl(im) = it {
            let auto = im.attrs.iter().any(|a| a.path().is_ident("automatically_derived"));
            let self_ty = match &*im.self_ty {
                syn::Type::Path(p) => p.path.segments.last().map(|s| s.ident.to_string()).unwrap_or_default(),
                _ => String::new(),
            };
            if auto && self_ty == ty {
                if let Some((_, p, _)) = &im.trait_ {
                    if let Some(s) = p.segments.last() {
                        out.push(s.ident.to_string());
                    }
                }
            }
        }
    }
    out
}

impl<'a> Ctx<'a> {
    /// parse the expansion file and register its flattened items as pseudo source `@expanded`
    fn load_expanded(&mut self) -> Result<(), String> {
        if self.sources.contains_key(EXPANDED_FILE) {
            return Ok(());
        }
        let Some(Some(p)) = EXPANDED_PATH.get().cloned() else {
            return Err("//@expanded needs `vx gen --expanded <file>` (macro expansion of the same tree)".into());
        };
        let text = std::fs::read_to_string(&p).map_err(|e| format!("cannot read expansion {p}: {e}"))?;
        let ast = syn::parse_file(&text).map_err(|e| format!("cannot parse expansion {p}: {e}"))?;
        let mut flat = vec![];
        flatten_items(&ast.items, &mut flat);
        // keep only the item kinds the extractor can select (data items and impl blocks): their text is copied verbatim
        let mut ftext = String::new();
        for it in flat {
            if matches!(it, syn::Item::Struct(_) | syn::Item::Enum(_) | syn::Item::Const(_) | syn::Item::Type(_) | syn::Item::Impl(_) | syn::Item::Static(_)) {
                ftext.push_str(&text[br(it)]);
                ftext.push_str("\n");
            }
        }
        let fast = syn::parse_file(&ftext).map_err(|e| format!("cannot re-parse flattened expansion: {e}"))?;
        self.sources.insert(EXPANDED_FILE.to_string(), Source { text: ftext, ast: fast });
        Ok(())
    }

    /// R8: copy a named data item from the expansion
    pub fn extract_expanded_item(&mut self, name: &str, derives: Option<String>) -> Result<Emitted, String> {
        self.load_expanded()?;
        let mut e = self.extract_item(EXPANDED_FILE, name, None)?;
        if let Some(list) = derives {
            let have = auto_derived_traits(&self.sources[EXPANDED_FILE].ast.items, name);
            for d in list.split(',').map(str::trim).filter(|d| !d.is_empty()) {
                if !have.iter().any(|h| h == d) {
                    return Err(format!("//@expanded {name}: derive={d} is not justified: the expansion has no #[automatically_derived] impl {d} for {name}"));
                }
            }
            e.text = format!("#[derive({list})]\n{}", e.text);
        }
        self.cnt.bump("R8_expanded_item");
        Ok(e)
    }
}

impl<'a> Gen<'a> {
    /// R8 (key lists): `//@phf_spec <STATIC> <spec_fn>` — the `entries: &[("KEY", Value), ..]` list of the generated
    /// `static <STATIC>: phf::Map<&'static str, V>` (output of the crate's derive macro, from the macro expansion of the same
    /// tree) is emitted as a ghost lookup table `pub open spec fn <spec_fn>(s: Seq<char>) -> Option<V>` (an if-else chain in
    /// entry order; a key is spelled as `s.len() == n && s[0] == 'K' && ..`, values are copied verbatim). Nothing else of the static is used: that
    /// phf's `get` finds exactly these entries stays an assumption of the unit (A5). Counted as R8_phf_entries.
    fn phf_spec_directive(&mut self, parts: &[&str]) -> Result<(), String> {
        let (name, spec_fn) = (parts.get(1).ok_or("//@phf_spec <STATIC> <spec_fn>")?, parts.get(2).ok_or("//@phf_spec <STATIC> <spec_fn>")?);
        self.ctx.load_expanded()?;
        let src = &self.ctx.sources[EXPANDED_FILE];
        let mut found: Option<&syn::ItemStatic> = None;
        for it in &src.ast.items {
            if let syn::Item::Static(st) = it {
                if st.ident == name {
                    if found.is_some() {
                        return Err(format!("//@phf_spec: static `{name}` is ambiguous in the expansion"));
                    }
                    found = Some(st);
                }
            }
        }
        let Some(st) = found else { return Err(format!("lost anchor: static `{name}` not found in the macro expansion")) };
        let lost = |m: &str| format!("lost anchor: //@phf_spec {name}: {m}");
        // value type: second generic argument of `phf::Map<K, V>`
        let vty = match &*st.ty {
            syn::Type::Path(tp) => match tp.path.segments.last().map(|s| (&s.ident, &s.arguments)) {
                Some((id, syn::PathArguments::AngleBracketed(a))) if id == "Map" && a.args.len() == 2 => src.text[br(&a.args[1])].to_string(),
                _ => return Err(lost("its type is not `phf::Map<K, V>`")),
            },
            _ => return Err(lost("its type is not `phf::Map<K, V>`")),
        };
        let Expr::Struct(es) = &*st.expr else { return Err(lost("its initializer is not a struct literal")) };
        let Some(fv) = es.fields.iter().find(|f| matches!(&f.member, syn::Member::Named(n) if n == "entries")) else {
            return Err(lost("no `entries` field"));
        };
        let arr = match &fv.expr {
            Expr::Reference(r) => match &*r.expr {
                Expr::Array(a) => a,
                _ => return Err(lost("`entries` is not `&[..]`")),
            },
            _ => return Err(lost("`entries` is not `&[..]`")),
        };
        let mut body = String::new();
        let mut n = 0usize;
        for el in &arr.elems {
            let Expr::Tuple(t) = el else { return Err(lost("an entry is not a `(key, value)` tuple")) };
            if t.elems.len() != 2 {
                return Err(lost("an entry is not a `(key, value)` tuple"));
            }
            let Expr::Lit(syn::ExprLit { lit: syn::Lit::Str(k), .. }) = &t.elems[0] else { return Err(lost("a key is not a string literal")) };
            // `s == "KEY"` spelled as length + characters (no sequence literals: cheap for the solver)
            let mut key = format!("s.len() == {}", k.value().chars().count());
            for (i, c) in k.value().chars().enumerate() {
                let _ = write!(key, " && s[{i}] == {c:?}");
            }
            let val = norm(&src.text[br(&t.elems[1])]);
            let _ = writeln!(body, "    {}if {key} {{ Some({val}) }}", if n == 0 { "" } else { "else " });
            n += 1;
        }
        if n == 0 {
            return Err(lost("no entries"));
        }
        body.push_str("    else { None }\n");
        let line = st.span().start().line;
        self.ctx.cnt.bump("R8_phf_entries");
        let start = self.cur_line();
        self.emit(&format!("// <<< R8: the {n} (key, value) entries of `static {name}` (phf map generated by the crate's derive macro), taken from the macro expansion of the same tree"));
        self.emit(&format!("pub open spec fn {spec_fn}(s: Seq<char>) -> Option<{vty}> {{\n{body}}}"));
        let end = self.cur_line();
        self.map.push(MapEntry { gen_start: start, gen_end: end, kind: "item", name: (*name).into(), file: EXPANDED_FILE.into(), src_line: line, props: vec![] });
        Ok(())
    }

    /// `//@expanded [<ItemName> [derive=..]]`
    fn expanded_directive(&mut self, parts: &[&str]) -> Result<(), String> {
        self.ctx.load_expanded()?;
        let Some(name) = parts.get(1).filter(|n| !n.contains('=')) else { return Ok(()) };
        let der = kv(parts, "derive").map(|s| s.replace(',', ", "));
        let e = self.ctx.extract_expanded_item(name, der)?;
        self.emitted_fns.insert(format!("{EXPANDED_FILE}:{name}"));
        let start = self.cur_line();
        self.emit(&format!("// <<< R8: `{name}` taken from the macro expansion of the same tree (output of the crate's derive macro)"));
        self.emit(&e.text);
        let end = self.cur_line();
        self.map.push(MapEntry { gen_start: start, gen_end: end, kind: "item", name: (*name).into(), file: EXPANDED_FILE.into(), src_line: e.src_line, props: vec![] });
        Ok(())
    }
}

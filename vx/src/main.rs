//! vx — mechanical extractor: real sas-lexer source text  ->  one Verus file per unit.
//!
//! `vx gen --src <lexer src dir> --contracts <dir> --template <unit.vx> --cfg a,b,c --out <f.rs> --map <f.map.json>`
//!        `[--expanded <macro expansion of the same tree>]` (R8, only for units that use `//@expanded`)
//! `vx scan ...` (see scan.rs) — syntactic frame scans.
//!
//! The template owns ghost code (spec fns, lemmas, impl headers, contracts); every executable
//! item is copied from the source tree by span, with exactly the rewrites R1..R8 of DESIGN.md.
//! Exit codes: 0 ok, 2 lost anchor / unsupported construct / usage.

mod extract;
mod scan;

use std::process::exit;

fn usage() -> ! {
    eprintln!("usage: vx gen --src DIR --contracts DIR --template FILE --cfg LIST --out FILE --map FILE [--expanded FILE]\n       vx scan <name> --src DIR [--out FILE]");
    exit(2)
}

fn main() {
    let args: Vec<String> = std::env::args().collect();
    if args.len() < 2 {
        usage();
    }
    let mut opts = std::collections::HashMap::new();
    let mut pos = Vec::new();
    let mut i = 2;
    while i < args.len() {
        if let Some(k) = args[i].strip_prefix("--") {
            if i + 1 >= args.len() {
                usage();
            }
            opts.insert(k.to_string(), args[i + 1].clone());
            i += 2;
        } else {
            pos.push(args[i].clone());
            i += 1;
        }
    }
    match args[1].as_str() {
        "gen" => {
            let r = extract::gen(&opts);
            if let Err(e) = r {
                eprintln!("vx: UNDECIDED: {e}");
                exit(2);
            }
        }
        "scan" => {
            let r = scan::run(&pos, &opts);
            match r {
                Ok(code) => exit(code),
                Err(e) => {
                    eprintln!("vx: UNDECIDED: {e}");
                    exit(2);
                }
            }
        }
        _ => usage(),
    }
}

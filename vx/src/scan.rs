//! Syntactic frame scans (DESIGN §4.3 P2, §6 C19).
//!
//! `vx scan frame --src <lexer dir>`: the `modifies` clause of every method of `impl Lexer` that is NOT a primitive:
//!   the fields INV speaks about (cursor, buffer, cur_token_*, checkpoint, errors, source, source_len) are written only
//!   through the primitives whose bodies are verified (U02, U03, U09) — checked syntactically over every `.rs` under
//!   `lexer/` (child modules see Lexer's private fields).
//! `vx scan shared_state --src <lexer dir>`: nothing outside a `Lexer` value can carry state from one call to another:
//!   no `static mut`, no interior mutability, no thread locals, no I/O or clock/env access outside debug-only code; the
//!   debug-only observer state (`prev_char`, `last_state`) is read only in debug-only code.
//! Output: one JSON object {sites, violations:[{where, what}], samples, detail, trusted}. Exit 0 unless the scan itself failed.
use std::collections::{BTreeMap, HashMap};
use syn::spanned::Spanned;
use syn::visit::Visit;

/// Lexer fields INV depends on
const WATCHED: &[&str] = &["cursor", "buffer", "cur_token_byte_offset", "cur_token_start", "cur_token_line", "checkpoint", "errors", "source", "source_len"];

/// methods of the field's type that do not mutate it (receivers `&self`); everything else counts as a write
fn read_only(field: &str) -> &'static [&'static str] {
    match field {
        "cursor" => &["peek", "peek_next", "chars", "as_str", "clone", "char_offset", "remaining_len", "prev_char"],
        "buffer" => &["last_token_info", "last_token_info_on_default_channel", "next_string_literal_start", "token_count", "line_count",
                      "iter_token_infos", "last_line_info", "last_token", "last_line"],
        "errors" => &["len", "is_empty", "last", "iter"],
        "checkpoint" => &["is_none", "is_some", "as_ref"],
        "source" => &["get", "len", "as_bytes", "chars", "is_char_boundary", "starts_with"],
        // Copy newtypes: conversions read the value
        "cur_token_byte_offset" | "cur_token_start" | "cur_token_line" | "source_len" => &["into", "get", "clone"],
        _ => &[],
    }
}

/// (field, how) -> functions in which that write is allowed (the primitives, all under contract)
fn allowed(field: &str, how: &str) -> &'static [&'static str] {
    match (field, how) {
        // monotone cursor moves preserve I1 (U02 contracts): allowed everywhere
        ("cursor", "advance") | ("cursor", "advance_by") | ("cursor", "eat_char") | ("cursor", "eat_while") => &["*"],
        ("cursor", "assign") => &["rollback"],
        // `&mut self.cursor` is handed to the identifier scanners of macro.rs, which use only the Cursor methods above
        ("cursor", "&mut") => &["lex_macro_identifier"],
        ("buffer", "add_line") => &["add_line"],
        ("buffer", "add_token") => &["emit_token", "emit_token_at_mark", "finalize_lexing", "update_last_token"],
        ("buffer", "insert_token") => &["lex_maybe_macro_call_args_or_label"],
        ("buffer", "add_string_literal") => &["add_string_literal_from_src", "lex_single_quoted_str", "lex_double_quoted_literal"],
        ("buffer", "last_token_info_mut") => &["update_last_token", "lex_maybe_macro_call_args_or_label"],
        // label retyping: a field-restricted write (channel/type/payload of one token; offsets untouched)
        ("buffer", "last_token_info_on_default_channel_mut") => &["lex_maybe_macro_call_args_or_label"],
        ("buffer", "checkpoint") => &["checkpoint"],
        ("buffer", "rollback") => &["rollback"],
        ("buffer", "into_detached") => &["lex"],
        ("cur_token_byte_offset", "assign") | ("cur_token_start", "assign") | ("cur_token_line", "assign") => &["start_token", "rollback"],
        ("checkpoint", "assign") => &["checkpoint", "clear_checkpoint"],
        ("checkpoint", "take") => &["rollback"],
        // a field-restricted write (only `mode_stack_len` of the live checkpoint, which INV does not mention): the body of
        // dispatch_macro_do is verified in U23 with INV as postcondition (lemma_ckpt_height_changed)
        ("checkpoint", "as_mut") => &["dispatch_macro_do"],
        ("errors", "push") => &["emit_error", "emit_error_info"],
        ("errors", "truncate") => &["rollback"],
        _ => &[],
    }
}

struct Site {
    file: String,
    line: usize,
    func: String,
    field: String,
    how: String,
}

struct V<'a> {
    file: &'a str,
    func: String,
    sites: Vec<Site>,
}

fn self_field(e: &syn::Expr) -> Option<String> {
    // self.<field>  (possibly wrapped in parens / further field accesses handled by callers)
    if let syn::Expr::Field(f) = e {
        if let syn::Expr::Path(p) = &*f.base {
            if p.path.is_ident("self") {
                if let syn::Member::Named(id) = &f.member {
                    return Some(id.to_string());
                }
            }
        }
        // self.<field>.<sub>...
        return self_field(&f.base);
    }
    if let syn::Expr::Paren(p) = e {
        return self_field(&p.expr);
    }
    if let syn::Expr::Index(i) = e {
        return self_field(&i.expr);
    }
    None
}

impl<'a> V<'a> {
    fn push(&mut self, sp: proc_macro2::Span, field: String, how: &str) {
        if WATCHED.contains(&field.as_str()) {
            self.sites.push(Site { file: self.file.to_string(), line: sp.start().line, func: self.func.clone(), field, how: how.to_string() });
        }
    }
}

impl<'a, 'ast> Visit<'ast> for V<'a> {
    fn visit_impl_item_fn(&mut self, f: &'ast syn::ImplItemFn) {
        let old = std::mem::replace(&mut self.func, f.sig.ident.to_string());
        syn::visit::visit_impl_item_fn(self, f);
        self.func = old;
    }
    fn visit_item_fn(&mut self, f: &'ast syn::ItemFn) {
        let old = std::mem::replace(&mut self.func, f.sig.ident.to_string());
        syn::visit::visit_item_fn(self, f);
        self.func = old;
    }
    fn visit_expr_assign(&mut self, a: &'ast syn::ExprAssign) {
        if let Some(fld) = self_field(&a.left) {
            self.push(a.span(), fld, "assign");
        }
        syn::visit::visit_expr_assign(self, a);
    }
    fn visit_expr_binary(&mut self, b: &'ast syn::ExprBinary) {
        use syn::BinOp::*;
        if matches!(b.op, AddAssign(_) | SubAssign(_) | MulAssign(_) | DivAssign(_) | RemAssign(_) | BitXorAssign(_) | BitAndAssign(_) | BitOrAssign(_) | ShlAssign(_) | ShrAssign(_)) {
            if let Some(fld) = self_field(&b.left) {
                self.push(b.span(), fld, "assign");
            }
        }
        syn::visit::visit_expr_binary(self, b);
    }
    fn visit_expr_reference(&mut self, r: &'ast syn::ExprReference) {
        if r.mutability.is_some() {
            if let Some(fld) = self_field(&r.expr) {
                self.push(r.span(), fld, "&mut");
            }
        }
        syn::visit::visit_expr_reference(self, r);
    }
    fn visit_expr_method_call(&mut self, m: &'ast syn::ExprMethodCall) {
        if let Some(fld) = self_field(&m.receiver) {
            // only a direct `self.<field>.method(..)` is a call on the field itself; `self.f.g.method()` is a write into f
            let direct = matches!(&*m.receiver, syn::Expr::Field(f) if matches!(&*f.base, syn::Expr::Path(p) if p.path.is_ident("self")));
            let name = m.method.to_string();
            if !(direct && read_only(&fld).contains(&name.as_str())) {
                self.push(m.span(), fld, if direct { &name } else { "assign" });
            }
        }
        syn::visit::visit_expr_method_call(self, m);
    }
}

fn parse_dir(src: &str) -> Result<Vec<(String, String, syn::File)>, String> {
    let mut out = vec![];
    let mut names: Vec<_> = std::fs::read_dir(src).map_err(|e| format!("{src}: {e}"))?.filter_map(|e| e.ok()).map(|e| e.path()).collect();
    names.sort();
    for p in names {
        if p.extension().map(|e| e == "rs").unwrap_or(false) {
            let text = std::fs::read_to_string(&p).map_err(|e| e.to_string())?;
            let ast = syn::parse_file(&text).map_err(|e| format!("{}: {e}", p.display()))?;
            out.push((p.file_name().unwrap().to_string_lossy().to_string(), text, ast));
        }
    }
    Ok(out)
}

fn frame(src: &str) -> Result<serde_json::Value, String> {
    let files = parse_dir(src)?;
    let mut sites = vec![];
    for (name, _text, ast) in &files {
        if name == "tests.rs" {
            continue;
        }
        let mut v = V { file: name, func: String::new(), sites: vec![] };
        // skip #[cfg(test)] modules
        for it in &ast.items {
            if let syn::Item::Mod(m) = it {
                if m.attrs.iter().any(|a| quote::quote!(#a).to_string().contains("test")) {
                    continue;
                }
            }
            v.visit_item(it);
        }
        sites.extend(v.sites);
    }
    let mut violations = vec![];
    let mut by_kind: BTreeMap<String, usize> = BTreeMap::new();
    for s in &sites {
        *by_kind.entry(format!("{}.{}", s.field, s.how)).or_default() += 1;
        let al = allowed(&s.field, &s.how);
        // buffer.rs / cursor.rs methods use `self.<field>` for their OWN fields, not Lexer's: only mod.rs and its child
        // modules that take a Lexer are relevant; cursor.rs/buffer.rs/text.rs define other types
        if s.file == "cursor.rs" || s.file == "buffer.rs" || s.file == "text.rs" || s.file == "error.rs" || s.file == "lexer_mode.rs" {
            continue;
        }
        if !(al.contains(&"*") || al.contains(&s.func.as_str())) {
            violations.push(serde_json::json!({"where": format!("{}:{} fn {}", s.file, s.line, s.func),
                "what": format!("writes Lexer.{} ({}) outside the primitives under contract", s.field, s.how)}));
        }
    }
    let samples: Vec<_> = sites.iter().take(6).map(|s| serde_json::json!({"site": format!("{}:{} fn {}", s.file, s.line, s.func), "field": s.field, "how": s.how})).collect();
    Ok(serde_json::json!({
        "sites": sites.len(), "violations": violations, "samples": samples, "detail": by_kind,
        "trusted": ["P2 is a syntactic scan (syn AST of every .rs under lexer/): writes through raw pointers, transmute or macros that expand to field writes are not seen; `&mut self.cursor` handed to macro.rs::lex_macro_call_stat_or_label is trusted to use Cursor methods only"],
    }))
}

fn shared_state(src: &str) -> Result<serde_json::Value, String> {
    let mut files = parse_dir(src)?;
    // also the crate root
    let root = std::path::Path::new(src).parent().map(|p| p.join("lib.rs"));
    if let Some(r) = root {
        if let Ok(text) = std::fs::read_to_string(&r) {
            if let Ok(ast) = syn::parse_file(&text) {
                files.push(("../lib.rs".into(), text, ast));
            }
        }
    }
    let banned = ["static mut", "thread_local!", "RefCell", "Cell<", "UnsafeCell", "Mutex", "RwLock", "Atomic", "lazy_static", "OnceCell", "OnceLock",
                  "std::env", "std::fs", "std::time", "SystemTime", "Instant::", "rand::", "std::io", "std::process", "std::net"];
    let mut violations = vec![];
    let mut sites = 0usize;
    let mut detail: BTreeMap<String, usize> = BTreeMap::new();
    for (name, text, ast) in &files {
        // statics must be immutable
        for it in &ast.items {
            if let syn::Item::Static(s) = it {
                sites += 1;
                *detail.entry("static items".into()).or_default() += 1;
                if !matches!(s.mutability, syn::StaticMutability::None) {
                    violations.push(serde_json::json!({"where": format!("{}:{}", name, s.span().start().line), "what": format!("static mut {}", s.ident)}));
                }
            }
        }
        let mut in_test = false;
        let mut depth_at_test: i64 = -1;
        let mut depth: i64 = 0;
        // debug-only regions: the item / statement / block that follows `#[cfg(debug_assertions)]`
        let mut dbg_pending: Option<i64> = None;
        let mut dbg_until: Option<i64> = None;
        let lines: Vec<&str> = text.lines().collect();
        for (i, line) in lines.iter().enumerate() {
            let code = line.split("//").next().unwrap_or("");
            if code.contains("#[cfg(test)]") {
                in_test = true;
                depth_at_test = depth;
            }
            let before = depth;
            depth += code.matches('{').count() as i64 - code.matches('}').count() as i64;
            if in_test && depth <= depth_at_test && code.contains('}') {
                in_test = false;
            }
            let mut in_dbg = dbg_until.is_some();
            if code.contains("#[cfg(debug_assertions)]") && dbg_until.is_none() {
                dbg_pending = Some(before);
                in_dbg = true;
            } else if let Some(d) = dbg_pending {
                in_dbg = true;
                if depth > d {
                    dbg_until = Some(d);
                    dbg_pending = None;
                } else if code.contains(';') || code.contains(',') || code.trim_end().ends_with('}') {
                    dbg_pending = None;
                }
            }
            if let Some(d) = dbg_until {
                if depth <= d {
                    dbg_until = None;
                }
            }
            if in_test {
                continue;
            }
            sites += 1;
            for b in banned {
                if code.contains(b) {
                    violations.push(serde_json::json!({"where": format!("{}:{}", name, i + 1), "what": format!("`{}` in non-test code: state or input outside the Lexer value", b)}));
                }
            }
            // debug-only observer state must be read only in debug-only code
            for obs in ["last_state", "prev_char"] {
                if code.contains(obs) {
                    *detail.entry(format!("uses of {obs}")).or_default() += 1;
                    let ctx_ok = in_dbg || code.contains("debug_assert") || code.contains("cfg(debug_assertions)") || code.contains("cfg!(debug_assertions)")
                        || (1..=12).any(|k| i >= k && {
                            let p = lines[i - k].split("//").next().unwrap_or("");
                            p.contains("cfg(debug_assertions)") || p.contains("debug_assert") || p.contains("cfg!(debug_assertions)")
                        });
                    if !ctx_ok {
                        violations.push(serde_json::json!({"where": format!("{}:{}", name, i + 1), "what": format!("debug-only observer state `{obs}` used outside debug-only code")}));
                    }
                }
            }
            if code.contains("unsafe") {
                *detail.entry("unsafe occurrences".into()).or_default() += 1;
            }
        }
    }
    Ok(serde_json::json!({
        "sites": sites, "violations": violations, "samples": [], "detail": detail,
        "trusted": ["shared-state scan is textual/syntactic over lexer/*.rs and lib.rs (non-test code): dependencies (phf, lexical, encoding, unicode-ident, bit-vec) are assumed free of global mutable state"],
    }))
}

pub fn run(pos: &[String], opts: &HashMap<String, String>) -> Result<i32, String> {
    let name = pos.first().ok_or("scan name")?;
    let src = opts.get("src").ok_or("missing --src")?;
    let j = match name.as_str() {
        "frame" => frame(src)?,
        "shared_state" => shared_state(src)?,
        other => return Err(format!("unknown scan `{other}`")),
    };
    let s = serde_json::to_string_pretty(&j).unwrap();
    if let Some(o) = opts.get("out") {
        std::fs::write(o, &s).map_err(|e| e.to_string())?;
    }
    println!("{s}");
    Ok(0)
}

//! syntactic frame scans (filled in later)
use std::collections::HashMap;

pub fn run(_pos: &[String], _opts: &HashMap<String, String>) -> Result<i32, String> {
    Err("no scans yet".into())
}

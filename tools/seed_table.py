#!/usr/bin/env python3
"""seed_table.py — render the table of seeded changes (DESIGN §10) from seeded/*/meta.json and benign/*/meta.json"""
import json, os, re
rows = []
for n in sorted(os.listdir("/verif/seeded")):
    mp = f"/verif/seeded/{n}/meta.json"
    if not os.path.exists(mp):
        continue
    m = json.load(open(mp))
    c = m.get("checks_on_patched_repo", {})
    q = c.get("quick", {}) if isinstance(c.get("quick"), dict) else {}
    how = "—"
    for l in q.get("lines", []):
        if l.startswith("obligation refuted: bounded stand-in"):
            how = "bounded stand-in (end-to-end twin, replayed input)"
            break
        mm = re.match(r"obligation refuted: (\S+?)::(.*?)::(.*?)  \[", l)
        if mm:
            how = f"{mm.group(1)} `{mm.group(2)}` · {mm.group(3)}"
            break
    if q.get("exit") == 2:
        how = "undecided (exit 2): " + (q.get("lines") or ["?"])[0][:110].replace("|", "/")
    rows.append((n, m.get("property"), {1: "VIOLATION", 0: "not detected (HOLDS)", 2: "undecided"}.get(q.get("exit"), "?"), how))
print("| seeded change | property | quick check | deciding obligation |")
print("|---|---|---|---|")
for r in rows:
    print("| `%s` | %s | %s | %s |" % r)
det = sum(1 for r in rows if r[2] == "VIOLATION")
print(f"\n{det} of {len(rows)} seeded changes are reported as violations by the quick check of their property.")
if os.path.isdir("/verif/benign"):
    b = []
    for n in sorted(os.listdir("/verif/benign")):
        mp = f"/verif/benign/{n}/meta.json"
        if os.path.exists(mp):
            m = json.load(open(mp))
            ex = [v.get("exit") for v in m["results"].values() if isinstance(v, dict)]
            b.append((n, ex.count(0), ex.count(2), ex.count(1)))
    if b:
        print("\nNegative controls (`benign/`, behaviour-preserving refactorings; 13 property checks each): "
              + "; ".join(f"`{n}`: {h} hold / {u} undecided / {v} VIOLATION" for n, h, u, v in b) + ".")

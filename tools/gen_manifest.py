#!/usr/bin/env python3
"""gen_manifest.py — regenerate /verif/MANIFEST.json from contracts/plan.json (single source of truth for what is claimed)"""
import json, os
ROOT = os.path.dirname(os.path.dirname(os.path.abspath(__file__)))
plan = json.load(open(os.path.join(ROOT, "contracts/plan.json")))
old = json.load(open(os.path.join(ROOT, "MANIFEST.json")))
ALL = [f"C{i:02d}" for i in range(1, 21)]
VERUS_T = "contract-based deductive verification (Verus) of mechanically extracted real functions"
KANI_T = "contract-based verification: loop-free Kani proof harnesses over the full input domain of real leaf functions"
NOTE = ("trusted base listed verbatim in the evidence file (assumed std specs, derive semantics A3, A1 object-invariant "
        "induction, A2, A6, external_body dependencies); coverage is per function under contract, residual named in DESIGN.md")
checks, verus_props, kani_props = [], [], []
for pid in ALL:
    sp = plan["properties"].get(pid)
    if not sp:
        continue
    has_units = bool(sp.get("units"))
    kani = [e for e in sp.get("extra", []) if e.get("kind") == "kani"]
    eng = "+".join(([ "verus"] if has_units else []) + (["kani"] if kani else [])) or "scan"
    if has_units: verus_props.append(pid)
    if kani: kani_props.append(pid)
    tech = VERUS_T if has_units else KANI_T
    if has_units and kani:
        tech = VERUS_T + "; " + KANI_T
    if any(e.get("bounded") for e in kani):
        tech += "; bounded Kani stand-in (stated bound) for functions outside the verifier's reach, labelled bounded"
    checks.append({
        "property_id": pid, "quick_cmd": f"./check {pid}", "thorough_cmd": f"./check {pid} --tier thorough",
        "evidence_file": f"/verif/evidence/{pid}.json", "replay_cmd_template": "./check --replay {path}",
        "engine": eng,
        "level_claimed": {"category": "proof", "text": sp["claim"], "design_ref": f"DESIGN.md §6 {pid}"},
        "level_note": NOTE, "technique": tech,
    })
m = {
    "version": 1,
    "setup_cmd": old["setup_cmd"],
    "hooks": old["hooks"],
    "engines": [
        {"name": "vx", "path": "vx/", "serves_properties": verus_props,
         "kind_free_text": "syn-based mechanical extractor: real function text -> Verus file, rewrites R1-R11 counted per run"},
        {"name": "verus", "path": "contracts/", "serves_properties": verus_props,
         "kind_free_text": "Verus 0.2026.09.13 deductive verifier, contracts spliced into the extracted real code"},
        {"name": "replay", "path": "replay/", "serves_properties": [p for p in verus_props if plan["properties"][p].get("e2e")],
         "kind_free_text": "end-to-end twins on the real lex_program: attach a failing input to a refuted obligation, never decide"},
        {"name": "kani", "path": "hooks/lexer_kani.rs", "serves_properties": kani_props,
         "kind_free_text": "Kani 0.68 proof harnesses on real leaf functions (complete over their domains; bounded ones labelled)"},
    ],
    "checks": checks,
    "notes": "see DESIGN.md",
    "not_applicable": [{"property_id": p, "reason": plan["not_applicable"][p]} for p in ALL if p not in plan["properties"]],
}
json.dump(m, open(os.path.join(ROOT, "MANIFEST.json"), "w"), indent=1)
print("claimed:", [c["property_id"] for c in checks]); print("n/a:", [x["property_id"] for x in m["not_applicable"]])

#!/usr/bin/env python3
"""pin_assumed.py — (re)write contracts/assumed_pins.json: the body hash of every function that enters some unit with an
ASSUMED (`external`) contract, taken from /repo's current tree. Run it only on a tree whose assumed contracts were reviewed
against the bodies (the pinned tree plus the recorded fix: commits); the checks compare against it and never write it."""
import json, os, subprocess, sys
ROOT = os.path.dirname(os.path.dirname(os.path.abspath(__file__)))
sys.path.insert(0, ROOT)
C = os.path.join(ROOT, "contracts")
plan = json.load(open(os.path.join(C, "plan.json")))
sites = set()
def walk(path, seen):
    for line in open(os.path.join(C, path)).read().splitlines():
        t = line.strip()
        if t.startswith("//@include ") or t.startswith("//@needs "):
            p = t.split()[1]
            if p not in seen:
                seen.add(p); walk(p, seen)
        elif t.startswith("//@fn ") and "external" in t.split()[3:]:
            p = t.split()
            if not p[1].startswith("@"):
                sites.add((p[1], p[2]))
for u in plan["units"].values():
    walk(u["template"], set())
keys = sorted(f"{f}::{n}" for f, n in sites)
vx = os.path.join(ROOT, "vx/target/release/vx")
src = os.environ.get("VERIF_REPO", "/repo") + "/crates/sas-lexer/src/lexer"
out = json.loads(subprocess.run([vx, "scan", "bodyhash", "--src", src, "--fns", ",".join(keys)], capture_output=True, text=True, check=True).stdout)
import hashlib
repo = os.environ.get("VERIF_REPO", "/repo")
for rel in ("crates/sas-lexer/src/lexer/token_type.rs", "crates/sas-lexer-macro/src/lib.rs"):
    out["file:" + rel] = hashlib.sha256(open(os.path.join(repo, rel), "rb").read()).hexdigest()[:16]
missing = [k for k, v in out.items() if v == "missing"]
json.dump(out, open(os.path.join(C, "assumed_pins.json"), "w"), indent=1, sort_keys=True)
print(len(out), "assumed bodies pinned;", "NOT FOUND: " + ", ".join(missing) if missing else "all found")

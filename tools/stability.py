#!/usr/bin/env python3
"""stability.py [seed ...] — run every unit in every configuration with other solver seeds (default 11 23 37) and report
any obligation whose verdict differs from the discharged one. Unstable proofs are the main source of false alarms."""
import importlib.machinery, importlib.util, json, os, sys
from concurrent.futures import ThreadPoolExecutor
ROOT = os.path.dirname(os.path.dirname(os.path.abspath(__file__)))
loader = importlib.machinery.SourceFileLoader("check", os.path.join(ROOT, "check"))
spec = importlib.util.spec_from_loader("check", loader); chk = importlib.util.module_from_spec(spec); loader.exec_module(chk)
seeds = [int(x) for x in sys.argv[1:]] or [11, 23, 37]
chk.ensure_vx()
chk.WORK = os.path.join(chk.BUILD, "stability")
jobs = [(u, c, s) for u, d in chk.PLAN["units"].items() for c in d["configs"].get("thorough", d["configs"]["quick"]) for s in seeds]
def one(j):
    u, c, s = j
    try:
        r = chk.run_unit(u, c, seed=s, tag=f"stab{s}")
        bad = [f"{f['function']}::{f['kind']}" for f in r["failures"]] + r["undecided"] + [f"vacuous:{v}" for v in r["vacuous"]]
        return j, bad, r["smt_ms"]
    except chk.Undecided as e:
        return j, [str(e)], 0
flaky = 0
with ThreadPoolExecutor(max_workers=int(os.environ.get("STAB_JOBS", "6"))) as ex:
    for j, bad, ms in ex.map(one, jobs):
        print(("FLAKY " if bad else "ok    ") + f"{j[0]} {j[1]} seed={j[2]} smt_ms={ms} " + "; ".join(bad)[:400], flush=True)
        flaky += 1 if bad else 0
print(f"done: {len(jobs)} runs, {flaky} with a differing verdict")
sys.exit(1 if flaky else 0)

#!/usr/bin/env python3
"""seed_rerun.py [name ...] — apply each kept seeded change to /repo, run its property's checks, undo; update meta.json"""
import json, os, subprocess, sys, time
names = sys.argv[1:] or sorted(os.listdir("/verif/seeded"))
summary = []
for name in names:
    d = f"/verif/seeded/{name}"
    mp = f"{d}/meta.json"
    if not os.path.exists(mp):
        continue
    meta = json.load(open(mp))
    prop = meta["property"]
    assert subprocess.run("git -C /repo status --porcelain --untracked-files=no", shell=True, capture_output=True, text=True).stdout.strip() == "", "/repo dirty"
    r = subprocess.run(f"git -C /repo apply {d}/patch.diff", shell=True, capture_output=True, text=True)
    checks = {}
    if r.returncode != 0:
        checks["apply_error"] = r.stderr
    else:
        try:
            for tier in ("quick", "thorough"):
                t0 = time.time()
                r = subprocess.run(["./check", prop, "--tier", tier], cwd="/verif", stdout=subprocess.PIPE, stderr=subprocess.STDOUT, text=True, timeout=7200)
                lines = [l for l in r.stdout.splitlines() if l.startswith(("VIOLATION", "obligation refuted", "UNDECIDED", "KNOWN", prop))]
                checks[tier] = {"exit": r.returncode, "wall_s": round(time.time() - t0, 1), "lines": lines[:12]}
                if r.returncode == 1:
                    break
        finally:
            subprocess.run("git -C /repo checkout -- .", shell=True)
    meta["checks_on_patched_repo"] = checks
    meta["detected"] = any(isinstance(v, dict) and v.get("exit") == 1 for v in checks.values())
    json.dump(meta, open(mp, "w"), indent=1)
    summary.append((name, prop, meta["detected"], {k: v.get("exit") for k, v in checks.items() if isinstance(v, dict)}))
for s in summary:
    print(*s)

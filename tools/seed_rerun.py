#!/usr/bin/env python3
"""seed_rerun.py [name ...] — run each kept seeded change through its property's checks and update meta.json.
The change is applied to a scratch worktree of /repo (outside /repo and /verif) and the checks are pointed at it with
VERIF_REPO, so /repo itself is never touched and proof work in /verif can go on meanwhile."""
import json, os, subprocess, sys, time, shutil
names = sys.argv[1:] or sorted(os.listdir("/verif/seeded"))
WT = "/tmp/seed-rerun-wt"
summary = []
def sh(c, **kw):
    return subprocess.run(c, shell=True, capture_output=True, text=True, **kw)
for name in names:
    d = f"/verif/seeded/{name}"
    mp = f"{d}/meta.json"
    if not os.path.exists(mp):
        continue
    meta = json.load(open(mp))
    prop = meta["property"]
    sh(f"git -C /repo worktree remove --force {WT}")
    shutil.rmtree(WT, ignore_errors=True)
    r = sh(f"git -C /repo worktree add --detach {WT} HEAD")
    assert r.returncode == 0, r.stderr
    checks = {}
    try:
        r = sh(f"git -C {WT} apply {d}/patch.diff")
        if r.returncode != 0:
            r = sh(f"cd {WT} && patch -p1 --fuzz=3 < {d}/patch.diff")
        if r.returncode != 0:
            checks["apply_error"] = (r.stderr + r.stdout)[-600:]
        else:
            for tier in ("quick", "thorough"):
                t0 = time.time()
                r = subprocess.run(["./check", prop, "--tier", tier], cwd="/verif", env=dict(os.environ, VERIF_REPO=WT),
                                   stdout=subprocess.PIPE, stderr=subprocess.STDOUT, text=True, timeout=7200)
                lines = [l for l in r.stdout.splitlines() if l.startswith(("VIOLATION", "obligation refuted", "UNDECIDED", "KNOWN", prop))]
                checks[tier] = {"exit": r.returncode, "wall_s": round(time.time() - t0, 1), "lines": lines[:12]}
                if r.returncode == 1 or tier == "quick" and os.environ.get("SEED_QUICK_ONLY"):
                    break
    finally:
        sh(f"git -C /repo worktree remove --force {WT}")
        shutil.rmtree(WT, ignore_errors=True)
    meta["checks_on_patched_repo"] = checks
    meta["detected"] = any(isinstance(v, dict) and v.get("exit") == 1 for v in checks.values())
    json.dump(meta, open(mp, "w"), indent=1)
    summary.append((name, prop, meta["detected"], {k: (v.get("exit") if isinstance(v, dict) else "apply_error") for k, v in checks.items()}))
    print(*summary[-1], flush=True)

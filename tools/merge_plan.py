#!/usr/bin/env python3
"""merge_plan.py <branch> — union-merge contracts/plan.json of <branch> into the working copy (ours wins on scalar conflicts)"""
import json, subprocess, sys
br = sys.argv[1]
theirs = json.loads(subprocess.run(["git", "show", f"{br}:contracts/plan.json"], capture_output=True, text=True, check=True).stdout)
ours = json.loads(subprocess.run(["git", "show", "HEAD:contracts/plan.json"], capture_output=True, text=True, check=True).stdout)
for u, d in theirs["units"].items():
    if u not in ours["units"]:
        ours["units"][u] = d
for p, d in theirs["properties"].items():
    if p not in ours["properties"]:
        ours["properties"][p] = d
    else:
        o = ours["properties"][p]
        for u in d.get("units", []):
            if u not in o["units"]:
                o["units"].append(u)
        for k in ("residual", "assumptions"):
            for x in d.get(k, []):
                if x not in o.setdefault(k, []):
                    o[k].append(x)
for a in theirs.get("global_assumptions", []):
    if a not in ours["global_assumptions"]:
        ours["global_assumptions"].append(a)
json.dump(ours, open("contracts/plan.json", "w"), indent=1)
print("merged plan.json from", br)

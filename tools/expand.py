#!/usr/bin/env python3
"""expand.py — R8 support: the macro expansion of the crate under verification (DESIGN §2.1, rewrite R8).

  tools/expand.py <repo root> <sep|nosep> [<lexer src dir>]      prints the path of the expansion file
  tools/expand.py --needs <unit template> <contracts dir>        exit 0 iff the unit uses //@expanded

Items that exist only as OUTPUT of the crate's own derive macros (`enum TokenTypeMacroCallOrStat`, its From/TryFrom
impls, ...) are taken from `cargo +nightly rustc -p sas-lexer --lib [--features macro_sep] -- -Zunpretty=expanded`
of THE SAME TREE the units are extracted from. The expansion is produced once per tree and feature set and cached
under build/expanded/, keyed by the hash of every input of the expansion (workspace manifests, lock file, the
sas-lexer and sas-lexer-macro crates). Nothing is ever written into the repository: the cargo target directory is
build/expand-target, and when the lexer sources come from a scratch directory (`SRC=`, mutants) the expansion runs
in a scratch copy of the workspace with that directory laid over crates/sas-lexer/src/lexer.
Failure (no nightly toolchain, tree does not expand) raises ExpandError -> the caller reports UNDECIDED (exit 2).
"""
import hashlib, os, shutil, subprocess, sys, tempfile

ROOT = os.path.dirname(os.path.dirname(os.path.abspath(__file__)))
BUILD = os.path.join(ROOT, "build")
LEXER_REL = "crates/sas-lexer/src/lexer"
# inputs of the expansion, relative to the workspace root (directories are walked)
INPUTS = ["Cargo.toml", "Cargo.lock", "crates/sas-lexer/Cargo.toml", "crates/sas-lexer/build.rs",
          "crates/sas-lexer/src", "crates/sas-lexer-macro/Cargo.toml", "crates/sas-lexer-macro/src"]


class ExpandError(Exception):
    pass


def _files(base):
    if os.path.isfile(base):
        yield base
        return
    for d, dirs, fs in os.walk(base):
        dirs[:] = sorted(x for x in dirs if x not in ("target", ".git", "snapshots"))
        for f in sorted(fs):
            yield os.path.join(d, f)


def tree_hash(repo, lexer_src=None):
    """hash of everything the expansion depends on; the lexer directory may come from a scratch copy"""
    h = hashlib.sha256()
    lexer_abs = os.path.realpath(os.path.join(repo, LEXER_REL))
    override = lexer_src and os.path.realpath(lexer_src) != lexer_abs
    for rel in INPUTS:
        p = os.path.join(repo, rel)
        if not os.path.exists(p):
            continue
        for f in _files(p):
            if override and os.path.realpath(f).startswith(lexer_abs + os.sep):
                continue
            h.update(os.path.relpath(f, repo).encode() + b"\0")
            h.update(open(f, "rb").read() + b"\0")
    if override:
        for f in _files(lexer_src):
            h.update(os.path.join(LEXER_REL, os.path.relpath(f, lexer_src)).encode() + b"\0")
            h.update(open(f, "rb").read() + b"\0")
    return h.hexdigest(), bool(override)


def expansion(repo, sep=True, lexer_src=None, build=BUILD):
    """path of the expansion of `repo` (with `lexer_src` laid over its lexer directory, if given)"""
    key, override = tree_hash(repo, lexer_src)
    odir = os.path.join(build, "expanded")
    os.makedirs(odir, exist_ok=True)
    out = os.path.join(odir, f"{key[:20]}_{'sep' if sep else 'nosep'}.rs")
    if os.path.exists(out) and os.path.getsize(out) > 0:
        return out
    scratch = None
    cwd = repo
    try:
        if override:
            scratch = tempfile.mkdtemp(prefix="tree.", dir=odir)
            cwd = os.path.join(scratch, "ws")
            shutil.copytree(repo, cwd, symlinks=True,
                            ignore=shutil.ignore_patterns("target", ".git", ".venv", "node_modules", "*.snap"))
            dst = os.path.join(cwd, LEXER_REL)
            shutil.rmtree(dst, ignore_errors=True)
            shutil.copytree(lexer_src, dst)
        cmd = ["cargo", "+nightly", "rustc", "--offline", "--locked", "-p", "sas-lexer", "--lib"]
        if sep:
            cmd += ["--features", "macro_sep"]
        cmd += ["--", "-Zunpretty=expanded"]
        env = dict(os.environ, CARGO_NET_OFFLINE="true", CARGO_TARGET_DIR=os.path.join(build, "expand-target"))
        r = subprocess.run(cmd, cwd=cwd, env=env, stdout=subprocess.PIPE, stderr=subprocess.PIPE, text=True)
        if r.returncode != 0 or "enum " not in r.stdout:
            raise ExpandError("macro expansion failed (R8): " + " ".join(cmd) + "\n" + r.stderr[-1500:])
        tmp = out + f".{os.getpid()}.tmp"
        with open(tmp, "w") as f:
            f.write(r.stdout)
        os.replace(tmp, out)  # atomic: concurrent checks may race for the same file
        return out
    finally:
        if scratch:
            shutil.rmtree(scratch, ignore_errors=True)


def needs_expansion(template, contracts):
    """does the unit template (or a fragment it includes, transitively) use the //@expanded directive?"""
    seen, todo = set(), [template]
    while todo:
        p = todo.pop()
        if p in seen:
            continue
        seen.add(p)
        try:
            lines = open(p).read().splitlines()
        except OSError:
            continue
        for l in lines:
            t = l.strip()
            if t.startswith("//@expanded") or t.startswith("//@fn @expanded"):
                return True
            if t.startswith("//@include ") or t.startswith("//@needs "):
                todo.append(os.path.join(contracts, t.split()[1]))
    return False


if __name__ == "__main__":
    if len(sys.argv) >= 4 and sys.argv[1] == "--needs":
        sys.exit(0 if needs_expansion(sys.argv[2], sys.argv[3]) else 1)
    if len(sys.argv) < 3:
        sys.exit(__doc__)
    try:
        print(expansion(sys.argv[1], sys.argv[2] == "sep", sys.argv[3] if len(sys.argv) > 3 else None))
    except ExpandError as e:
        sys.stderr.write(str(e) + "\n")
        sys.exit(2)

#!/bin/bash
# mut_try.sh <patch.diff> <unit> [vrun flags...] — apply a patch to a scratch copy of the lexer sources and verify one unit against it
set -e
patch=$(realpath "$1"); unit=$2; shift 2
d=$(mktemp -d /tmp/mut.XXXXXX)
mkdir -p $d/crates/sas-lexer/src
cp -r /repo/crates/sas-lexer/src/lexer $d/crates/sas-lexer/src/
(cd $d && patch -s -p1 < "$patch")
SRC=$d/crates/sas-lexer/src/lexer /verif/vrun $unit "$@" 2>&1 | grep -v "^ *|$\|^\.\.\.\|^warning\|= note\|= help\|^help\|__canary\|snake case\|^ *--> .*[0-9]$" | head -60
rm -rf $d

#!/bin/bash
# merge_branch.sh <branch> — merge a worker branch: union-merge plan.json, keep our evidence, concatenate README hunks
set -e
cd /verif
br=$1
git merge $br >/dev/null 2>&1 || true
for f in $(git diff --name-only --diff-filter=U); do
  case $f in
    evidence/*) git checkout --ours $f;;
    contracts/plan.json) python3 tools/merge_plan.py $br;;
    contracts/README.md|DESIGN.md) python3 - "$f" <<'PY'
import re,sys
p=sys.argv[1]; s=open(p).read()
s=re.sub(r'<<<<<<< HEAD\n(.*?)=======\n(.*?)>>>>>>> [\w-]+\n', lambda m: m.group(1)+m.group(2), s, flags=re.S)
open(p,'w').write(s)
PY
    ;;
    *) echo "UNRESOLVED: $f"; UNRES=1;;
  esac
done
python3 tools/merge_plan.py $br >/dev/null
if [ -n "$UNRES" ]; then echo "resolve the files above, then: git add -A && git commit"; exit 1; fi
git add -A
git diff --cached --quiet || git commit -qm "merge $br"
git worktree remove --force /tmp/vw-${br#w-} 2>/dev/null || true
git branch -D $br -q 2>/dev/null || true
echo merged $br

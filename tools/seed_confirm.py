#!/usr/bin/env python3
"""seed_confirm.py <seed-name> <property> <worktree> [demo extra cargo args...]
Confirm a sub-agent's seeded change in its scratch worktree (suite passes with it, demo fails with it and
passes without it), store it under /verif/seeded/<seed-name>/, then run the property's checks against the
change applied to /repo and undo it. Writes meta.json."""
import json, os, shutil, subprocess, sys, time
name, prop, wt = sys.argv[1:4]
extra = sys.argv[4:]
out = f"/verif/seeded/{name}"
os.makedirs(out, exist_ok=True)
env = dict(os.environ, CARGO_TARGET_DIR=f"{wt}/target", CARGO_NET_OFFLINE="true")
def sh(cmd, cwd=wt, timeout=3600):
    r = subprocess.run(cmd, shell=True, cwd=cwd, env=env, stdout=subprocess.PIPE, stderr=subprocess.STDOUT, text=True, timeout=timeout)
    return r.returncode, r.stdout
demo_rel = "crates/sas-lexer/tests/seed_demo.rs"
rc, diff = sh("git diff -- crates ':!crates/sas-lexer/tests/seed_demo.rs'")
open(f"{out}/patch.diff", "w").write(diff)
shutil.copy(f"{wt}/{demo_rel}", f"{out}/demo.rs")
if os.path.exists(f"{wt}/seed/notes.md"):
    shutil.copy(f"{wt}/seed/notes.md", f"{out}/notes.md")
meta = {"name": name, "property": prop, "ran": []}
# 1. suite with the change (demo moved aside)
os.rename(f"{wt}/{demo_rel}", f"{wt}/seed_demo.rs.aside")
rc, o = sh("cargo test --workspace --offline 2>&1 | grep -E 'test result|FAILED|panicked' | head -20")
meta["suite_with_change"] = o.strip().splitlines()
meta["ran"].append("cargo test --workspace --offline (change applied, demo aside)")
os.rename(f"{wt}/seed_demo.rs.aside", f"{wt}/{demo_rel}")
suite_ok = "2152 passed; 0 failed" in o and "FAILED" not in o
# 2. demo with the change
demo_cmd = "cargo test --offline -p sas-lexer --test seed_demo " + " ".join(extra)
rc1, o1 = sh(demo_cmd + " 2>&1 | tail -25")
meta["demo_with_change"] = {"cmd": demo_cmd, "failed": "FAILED" in o1 or "error" in o1.lower() and "test result: ok" not in o1, "tail": o1.strip().splitlines()[-6:]}
# 3. demo without the change
sh(f"git apply -R {out}/patch.diff")
rc2, o2 = sh(demo_cmd + " 2>&1 | tail -8")
sh(f"git apply {out}/patch.diff")
meta["demo_without_change"] = {"passed": "test result: ok" in o2 and "FAILED" not in o2, "tail": o2.strip().splitlines()[-3:]}
meta["confirmed"] = bool(suite_ok and meta["demo_with_change"]["failed"] and meta["demo_without_change"]["passed"])
# 4. run the property's checks against the scratch worktree (the change is applied there); /repo is never touched
checks = {}
for tier in ("quick", "thorough"):
    t0 = time.time()
    r = subprocess.run(["./check", prop, "--tier", tier], cwd="/verif", env=dict(os.environ, VERIF_REPO=wt),
                       stdout=subprocess.PIPE, stderr=subprocess.STDOUT, text=True, timeout=7200)
    lines = [l for l in r.stdout.splitlines() if l.startswith(("VIOLATION", "obligation refuted", "UNDECIDED", "KNOWN", prop))]
    checks[tier] = {"exit": r.returncode, "wall_s": round(time.time() - t0, 1), "lines": lines[:12]}
    if r.returncode == 1 or os.environ.get("SEED_QUICK_ONLY"):
        break
meta["checks_on_patched_repo"] = checks
meta["detected"] = any(isinstance(v, dict) and v.get("exit") == 1 for v in checks.values())
json.dump(meta, open(f"{out}/meta.json", "w"), indent=1)
print(json.dumps(meta, indent=1))

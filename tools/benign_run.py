#!/usr/bin/env python3
"""benign_run.py [name ...] — negative controls: apply each behaviour-preserving refactoring under benign/<name>/patch.diff to
a scratch worktree of /repo and run the checks against it. A VIOLATION (exit 1) on such a tree is a FALSE ALARM of the
machinery; exit 0 (holds) and exit 2 (undecided: the proof text no longer applies) are both acceptable."""
import json, os, subprocess, sys, time, shutil
names = sys.argv[1:] or sorted(os.listdir("/verif/benign"))
PROPS = os.environ.get("BENIGN_PROPS", "C01 C02 C04 C06 C07 C08 C09 C10 C11 C13 C14 C16 C19").split()
WT = "/tmp/benign-wt"
def sh(c, **kw):
    return subprocess.run(c, shell=True, capture_output=True, text=True, **kw)
for name in names:
    d = f"/verif/benign/{name}"
    if not os.path.exists(f"{d}/patch.diff"):
        continue
    sh(f"git -C /repo worktree remove --force {WT}"); shutil.rmtree(WT, ignore_errors=True)
    assert sh(f"git -C /repo worktree add --detach {WT} HEAD").returncode == 0
    res = {}
    try:
        r = sh(f"git -C {WT} apply {d}/patch.diff")
        if r.returncode != 0:
            res["apply_error"] = r.stderr[-300:]
        else:
            for p in PROPS:
                t0 = time.time()
                r = subprocess.run(["./check", p], cwd="/verif", env=dict(os.environ, VERIF_REPO=WT), stdout=subprocess.PIPE, stderr=subprocess.STDOUT, text=True, timeout=7200)
                lines = [l[:300] for l in r.stdout.splitlines() if l.startswith(("VIOLATION", "obligation refuted", "UNDECIDED"))]
                res[p] = {"exit": r.returncode, "wall_s": round(time.time() - t0, 1), "lines": lines[:4]}
    finally:
        sh(f"git -C /repo worktree remove --force {WT}"); shutil.rmtree(WT, ignore_errors=True)
    json.dump({"name": name, "results": res, "false_alarm": any(isinstance(v, dict) and v.get("exit") == 1 for v in res.values())},
              open(f"{d}/meta.json", "w"), indent=1)
    print(name, {k: (v.get("exit") if isinstance(v, dict) else v) for k, v in res.items()}, flush=True)

#!/usr/bin/env python3
"""coverage.py — which functions are under contract (proved) in which unit, which are assumed (external), which Lexer
methods are under no contract. Derived from the templates, i.e. what `vx gen` will emit."""
import json, os, re, sys
ROOT = os.path.dirname(os.path.dirname(os.path.abspath(__file__)))
C = os.path.join(ROOT, "contracts")
plan = json.load(open(os.path.join(C, "plan.json")))
def frags(path, assumed, seen, out):
    for line in open(os.path.join(C, path)).read().splitlines():
        t = line.strip()
        if t.startswith("//@include ") or t.startswith("//@needs "):
            p = t.split()
            if p[1] in seen: continue
            seen.add(p[1])
            a = assumed or "assumed" in p[2:] or t.startswith("//@needs ")
            frags(p[1], a, seen, out)
        elif t.startswith("//@fn "):
            p = t.split()
            ext = "external" in p[3:]
            out.append((p[2], p[1], "external" if ext else ("assumed" if assumed else "proved")))
proved, external = {}, {}
for u in plan["units"]:
    out = []
    frags(plan["units"][u]["template"], False, set(), out)
    for name, file, kind in out:
        if kind == "proved": proved.setdefault(name, (u, file))
        elif kind == "external": external.setdefault(name, []).append(u)
private = {k: v for k, v in external.items() if k in proved}
external = {k: v for k, v in external.items() if k not in proved}
src = open("/repo/crates/sas-lexer/src/lexer/mod.rs").read()
allm = re.findall(r"^    (?:pub(?:\(crate\))? )?(?:const )?fn (\w+)", src, re.M)
none = [m for m in allm if f"Lexer::{m}" not in proved and f"Lexer::{m}" not in external]
if "--json" in sys.argv:
    print(json.dumps({"proved": {k: v[0] for k, v in proved.items()}, "assumed": external, "privately_assumed": private, "no_contract": none}, indent=1))
else:
    byu = {}
    for k, (u, f) in proved.items(): byu.setdefault(u, []).append(k)
    for u in sorted(byu): print(u, len(byu[u]), ", ".join(sorted(byu[u])))
    print("ASSUMED (external, proved nowhere):", ", ".join(f"{k}[{','.join(v)}]" for k, v in sorted(external.items())))
    print("PRIVATELY ASSUMED although proved in another unit (must be empty: take the proved contract with //@needs):", ", ".join(f"{k}[{','.join(v)}; proved {proved[k][0]}]" for k, v in sorted(private.items())) or "none")
    print("Lexer methods under no contract:", ", ".join(none))
    print("totals: proved", len(proved), "assumed", len(external), "Lexer methods in mod.rs", len(allm), "of which proved", sum(1 for m in allm if f"Lexer::{m}" in proved))

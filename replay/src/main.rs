//! replay — end-to-end twins of the properties on the real `lex_program` (public API only).
//!
//! These checks never decide a property (the verifier does); they attach a concrete failing input to an
//! obligation the verifier refused, and re-run recorded inputs:
//!   replay check  <PROP> --hex <utf8-hex>     exit 1 + "FAIL ..." when the property is violated on that input
//!   replay search <PROP> <depth>              enumerate fragment strings up to <depth> fragments, print first
//!                                             violation as `WITNESS {json}`
//!   replay dump --hex <utf8-hex>              print tokens/errors
use sas_lexer::error::{ErrorInfo, ErrorKind};
use sas_lexer::{lex_program, LexResult, Payload, TokenChannel, TokenIdx, TokenType, TokenizedBuffer};
use std::panic;

type R = Result<(), String>;

fn hex_decode(h: &str) -> String {
    let b: Vec<u8> = (0..h.len() / 2).map(|i| u8::from_str_radix(&h[2 * i..2 * i + 2], 16).unwrap()).collect();
    String::from_utf8(b).expect("utf8")
}
fn hex_encode(s: &str) -> String {
    s.bytes().map(|b| format!("{b:02x}")).collect()
}

fn lex(src: &str) -> Result<LexResult, String> {
    let s = src.to_string();
    let r = panic::catch_unwind(move || lex_program(&s));
    match r {
        Ok(Ok(r)) => Ok(r),
        Ok(Err(e)) => Err(format!("lex_program returned Err({e:?})")),
        Err(_) => Err("PANIC".to_string()),
    }
}

struct Tok {
    ty: TokenType,
    ch: TokenChannel,
    b0: usize,
    b1: usize,
    c0: u32,
    c1: u32,
    payload: Payload,
}

fn toks(buf: &TokenizedBuffer) -> Result<Vec<Tok>, String> {
    let mut v = Vec::new();
    for t in buf.iter_tokens() {
        let e = |w: &str| format!("accessor {w} failed for token {}", t.get());
        v.push(Tok {
            ty: buf.get_token_type(t).map_err(|_| e("type"))?,
            ch: buf.get_token_channel(t).map_err(|_| e("channel"))?,
            b0: buf.get_token_start_byte_offset(t).map_err(|_| e("start_byte"))?.get() as usize,
            b1: buf.get_token_end_byte_offset(t).map_err(|_| e("end_byte"))?.get() as usize,
            c0: buf.get_token_start(t).map_err(|_| e("start"))?.get(),
            c1: buf.get_token_end(t).map_err(|_| e("end"))?.get(),
            payload: buf.get_token_payload(t).map_err(|_| e("payload"))?,
        });
    }
    Ok(v)
}

fn bom_len(src: &str) -> usize {
    if src.starts_with('\u{feff}') { 3 } else { 0 }
}

// ---------------------------------------------------------------- C01
fn c01(src: &str) -> R {
    let r = lex(src)?;
    for e in &r.errors {
        if e.error_kind().is_internal() {
            return Err(format!("internal error {:?} at {}", e.error_kind(), e.at_byte_offset()));
        }
    }
    let n = r.buffer.token_count() as usize;
    if n > 8 * src.len() + 8 {
        return Err(format!("{} tokens for {} bytes", n, src.len()));
    }
    Ok(())
}

// ---------------------------------------------------------------- C02
fn c02(src: &str) -> R {
    let r = lex(src)?;
    let t = toks(&r.buffer)?;
    if t.is_empty() {
        return Err("no tokens".into());
    }
    if t[0].b0 != bom_len(src) {
        return Err(format!("first token starts at {} not right after the BOM", t[0].b0));
    }
    let mut cat = String::new();
    for (i, k) in t.iter().enumerate() {
        if !src.is_char_boundary(k.b0) {
            return Err(format!("token {i} starts off a char boundary ({})", k.b0));
        }
        if k.b1 < k.b0 {
            return Err(format!("token {i} ends before it starts"));
        }
        if i + 1 < t.len() && t[i + 1].b0 != k.b1 {
            return Err(format!("gap/overlap after token {i}"));
        }
        // "start offsets never decrease" and "every token ends where the next one starts" hold in both coordinates
        if i + 1 < t.len() && (t[i + 1].c0 < k.c0 || t[i + 1].c0 != k.c1) {
            return Err(format!("character offsets: token {i} is [{}..{}) but the next token starts at {}", k.c0, k.c1, t[i + 1].c0));
        }
        let is_eof = k.ty == TokenType::EOF;
        if is_eof != (i + 1 == t.len()) {
            return Err(format!("EOF placement wrong at token {i}"));
        }
        let raw = r.buffer.get_token_raw_text(TokenIdx_of(&r.buffer, i), &src).map_err(|_| format!("raw text accessor failed for {i}"))?;
        if k.b1 > k.b0 {
            match raw {
                Some(s) => cat.push_str(s),
                None => return Err(format!("raw text None for non-empty token {i}")),
            }
        }
        let ti = TokenIdx_of(&r.buffer, i);
        if r.buffer.get_token_end_line(ti).is_err() || r.buffer.get_token_end_column(ti).is_err()
            || r.buffer.get_token_start_line(ti).is_err() || r.buffer.get_token_start_column(ti).is_err()
            || r.buffer.get_token_resolved_text(ti, &src).is_err() {
            return Err(format!("an accessor failed for token {i}"));
        }
    }
    let last = t.last().unwrap();
    if last.b0 != src.len() {
        return Err(format!("EOF at {} not at end {}", last.b0, src.len()));
    }
    // "at the end of the text" in both coordinates
    if last.c0 as usize != src.chars().count() {
        return Err(format!("EOF char offset {} is not the end of the text ({} scalar values)", last.c0, src.chars().count()));
    }
    if cat != src[bom_len(src)..] {
        return Err("concatenated raw texts differ from the source".into());
    }
    Ok(())
}

#[allow(non_snake_case)]
fn TokenIdx_of(buf: &TokenizedBuffer, i: usize) -> TokenIdx {
    buf.iter_tokens().nth(i).unwrap()
}

// ---------------------------------------------------------------- C03
fn chars_before(src: &str, b: usize) -> Option<u32> {
    if b > src.len() || !src.is_char_boundary(b) {
        return None;
    }
    Some(src[..b].chars().count() as u32)
}
fn c03(src: &str) -> R {
    let r = lex(src)?;
    let t = toks(&r.buffer)?;
    for (i, k) in t.iter().enumerate() {
        if chars_before(src, k.b0) != Some(k.c0) {
            return Err(format!("token {i}: char offset {} but {:?} scalars precede byte {}", k.c0, chars_before(src, k.b0), k.b0));
        }
        if chars_before(src, k.b1) != Some(k.c1) {
            return Err(format!("token {i}: end char offset {} vs byte {}", k.c1, k.b1));
        }
    }
    for e in &r.errors {
        if chars_before(src, e.at_byte_offset() as usize) != Some(e.at_char_offset()) {
            return Err(format!("error {:?}: char offset {} vs byte {}", e.error_kind(), e.at_char_offset(), e.at_byte_offset()));
        }
    }
    Ok(())
}

// ---------------------------------------------------------------- C04
/// (line 1-based, column 0-based) of char index c, BOM not counted in line 1
fn line_col(src: &str, c: u32) -> (u32, u32) {
    let mut line = 1;
    let mut col = 0;
    for (i, ch) in src.chars().enumerate() {
        if i as u32 == c {
            break;
        }
        if ch == '\n' {
            line += 1;
            col = 0;
        } else if !(i == 0 && ch == '\u{feff}') {
            col += 1;
        }
    }
    (line, col)
}
fn c04(src: &str) -> R {
    let r = lex(src)?;
    let t = toks(&r.buffer)?;
    let nl = src.chars().filter(|c| *c == '\n').count() as u32;
    if r.buffer.line_count() != nl + 1 {
        return Err(format!("line_count {} but {} line feeds", r.buffer.line_count(), nl));
    }
    for (i, k) in t.iter().enumerate() {
        let ti = TokenIdx_of(&r.buffer, i);
        let (l, c) = line_col(src, k.c0);
        let gl = r.buffer.get_token_start_line(ti).map_err(|_| "acc")?;
        let gc = r.buffer.get_token_start_column(ti).map_err(|_| "acc")?;
        if (gl, gc) != (l, c) {
            return Err(format!("token {i} start ({gl},{gc}) expected ({l},{c})"));
        }
        // end: position just past the last character; a trailing line feed does not wrap (DESIGN §C04)
        let (el, ec) = if k.c1 == k.c0 {
            (l, c)
        } else {
            let (l2, c2) = line_col(src, k.c1 - 1);
            (l2, c2 + 1)
        };
        let gel = r.buffer.get_token_end_line(ti).map_err(|_| "acc")?;
        let gec = r.buffer.get_token_end_column(ti).map_err(|_| "acc")?;
        if (gel, gec) != (el, ec) {
            return Err(format!("token {i} end ({gel},{gec}) expected ({el},{ec})"));
        }
    }
    for e in &r.errors {
        let (l, c) = line_col(src, e.at_char_offset());
        if (e.on_line(), e.at_column()) != (l, c) {
            return Err(format!("error {:?} at ({},{}) expected ({l},{c})", e.error_kind(), e.on_line(), e.at_column()));
        }
    }
    Ok(())
}

// ---------------------------------------------------------------- C05
fn c05(src: &str) -> R {
    let r = lex(src)?;
    let v = r.buffer.into_resolved_token_vec();
    let t = toks(&r.buffer)?;
    if v.len() != t.len() {
        return Err(format!("bulk view has {} entries for {} tokens", v.len(), t.len()));
    }
    for (i, (a, k)) in v.iter().zip(t.iter()).enumerate() {
        let ti = TokenIdx_of(&r.buffer, i);
        let b = &r.buffer;
        let ok = a.channel == k.ch && a.token_type == k.ty && a.token_index == i as u32 && a.start == k.c0 && a.stop == k.c1
            && Ok(a.line) == b.get_token_start_line(ti) && Ok(a.column) == b.get_token_start_column(ti)
            && Ok(a.end_line) == b.get_token_end_line(ti) && Ok(a.end_column) == b.get_token_end_column(ti)
            && a.payload == k.payload;
        if !ok {
            return Err(format!("bulk entry {i} differs from the accessors: {:?}", a));
        }
    }
    Ok(())
}

// ---------------------------------------------------------------- C06 (checkable part of the shape table)
fn c06(src: &str) -> R {
    use TokenType as T;
    let r = lex(src)?;
    let t = toks(&r.buffer)?;
    let has_err_at = |kind: &[ErrorKind], b: usize| r.errors.iter().any(|e| kind.contains(&e.error_kind()) && e.at_byte_offset() as usize == b);
    for (i, k) in t.iter().enumerate() {
        let txt = &src[k.b0..k.b1];
        let is_comment = matches!(k.ty, T::CStyleComment | T::MacroComment | T::PredictedCommentStat);
        if is_comment != (k.ch == TokenChannel::COMMENT) {
            return Err(format!("token {i} {:?} on channel {:?}", k.ty, k.ch));
        }
        match k.ty {
            T::WS => {
                if txt.is_empty() || !txt.chars().all(char::is_whitespace) || k.ch != TokenChannel::HIDDEN {
                    return Err(format!("WS token {i} = {txt:?} on {:?}", k.ch));
                }
            }
            T::SEMI => {
                if !txt.chars().all(|c| c == ';') {
                    return Err(format!("SEMI token {i} has text {txt:?}"));
                }
            }
            T::MacroVarResolve => {
                let n = txt.len();
                let ok = !txt.is_empty() && txt.chars().all(|c| c == '&') && n.is_power_of_two()
                    && k.payload == Payload::Integer(n.trailing_zeros() as u64);
                if !ok {
                    return Err(format!("MacroVarResolve token {i} = {txt:?} payload {:?}", k.payload));
                }
            }
            T::CStyleComment => {
                let closed = txt.len() >= 4 && txt.starts_with("/*") && txt.ends_with("*/");
                if !(closed || (txt.starts_with("/*") && k.b1 == src.len() && r.errors.iter().any(|e| e.error_kind() == ErrorKind::UnterminatedComment))) {
                    return Err(format!("comment token {i} = {txt:?}"));
                }
            }
            T::LPAREN | T::RPAREN | T::ASSIGN | T::COMMA | T::FSLASH if txt.is_empty() => {
                let kinds = [ErrorKind::MissingExpectedRParen, ErrorKind::MissingExpectedAssign, ErrorKind::MissingExpectedLParen,
                             ErrorKind::MissingExpectedComma, ErrorKind::MissingExpectedFSlash];
                if !has_err_at(&kinds, k.b0) {
                    return Err(format!("empty {:?} token {i} without a missing-expected error", k.ty));
                }
            }
            T::LPAREN if txt != "(" => return Err(format!("LPAREN = {txt:?}")),
            T::RPAREN if txt != ")" => return Err(format!("RPAREN = {txt:?}")),
            T::COMMA if txt != "," => return Err(format!("COMMA = {txt:?}")),
            T::STAR if txt != "*" => return Err(format!("STAR = {txt:?}")),
            T::MacroVarTerm if txt != "." => return Err(format!("MacroVarTerm = {txt:?}")),
            T::CatchAll => {
                if txt.chars().count() != 1 || k.ch != TokenChannel::HIDDEN {
                    return Err(format!("CatchAll {txt:?}"));
                }
            }
            _ => {}
        }
        // "keyword tokens spell one of their keywords in any letter case": every keyword is an ASCII word, so the text of a
        // keyword token is one too (macro keywords: `%` then the word) — the part of that sentence checkable without the tables
        let name = format!("{:?}", k.ty);
        if name.starts_with("Kwm") && !txt.is_empty() {
            let w = txt.strip_prefix('%').unwrap_or("");
            if w.is_empty() || !w.chars().all(|c| c.is_ascii_alphabetic()) {
                return Err(format!("macro keyword token {i} {:?} has text {txt:?}, which spells no keyword", k.ty));
            }
        } else if name.starts_with("Kw") && !txt.is_empty() {
            if !txt.chars().all(|c| c.is_ascii_alphanumeric() || c == '_') || txt.starts_with(|c: char| c.is_ascii_digit()) {
                return Err(format!("keyword token {i} {:?} has text {txt:?}, which spells no keyword", k.ty));
            }
        }
        if txt.is_empty() && !matches!(k.ty, T::EOF | T::MacroSep | T::MacroStringEmpty | T::SEMI | T::LPAREN | T::RPAREN | T::ASSIGN | T::COMMA | T::FSLASH
            | T::StringExprEnd | T::BitTestingLiteralExprEnd | T::DateLiteralExprEnd | T::DateTimeLiteralExprEnd | T::NameLiteralExprEnd
            | T::TimeLiteralExprEnd | T::HexStringLiteralExprEnd | T::DatalinesData) {
            return Err(format!("empty token {i} of type {:?}", k.ty));
        }
        if k.ch == TokenChannel::HIDDEN && !matches!(k.ty, T::WS | T::CatchAll | T::COLON | T::KwmStr | T::KwmNrStr | T::LPAREN | T::RPAREN) {
            return Err(format!("token {i} {:?} on the hidden channel", k.ty));
        }
    }
    Ok(())
}

// ---------------------------------------------------------------- C07
fn unq_pct(s: &str) -> String {
    let c: Vec<char> = s.chars().collect();
    let mut o = String::new();
    let mut i = 0;
    while i < c.len() {
        if c[i] == '%' && i + 1 < c.len() && matches!(c[i + 1], '\'' | '"' | '%' | '(' | ')') {
            o.push(c[i + 1]);
            i += 2;
        } else {
            o.push(c[i]);
            i += 1;
        }
    }
    o
}
fn c07(src: &str) -> R {
    use TokenType as T;
    let r = lex(src)?;
    let t = toks(&r.buffer)?;
    let lit = r.buffer.string_literals_buffer();
    let mut expect_start = 0u32;
    let mut in_str_call: i32 = 0; // crude: are we inside %str( ... ) — tracked by hidden KwmStr/KwmNrStr + parens
    let unterminated = r.errors.iter().any(|e| e.error_kind() == ErrorKind::UnterminatedStringLiteral);
    for (i, k) in t.iter().enumerate() {
        let txt = &src[k.b0..k.b1];
        if matches!(k.ty, T::KwmStr | T::KwmNrStr) {
            in_str_call = 1;
        } else if in_str_call > 0 && (k.ty == T::MacroIdentifier || format!("{:?}", k.ty).starts_with("Kwm")) {
            // a nested macro call or statement: its arguments are not %str text; stop checking (conservative)
            in_str_call = 0;
        }
        if let Payload::StringLiteral(a, b) = k.payload {
            if a != expect_start || b < a || b as usize > lit.len() || !lit.is_char_boundary(a as usize) || !lit.is_char_boundary(b as usize) {
                return Err(format!("token {i}: payload range ({a},{b}) does not continue the literal buffer at {expect_start}"));
            }
            expect_start = b;
        }
        let val = |k: &Tok| -> Option<&str> {
            if let Payload::StringLiteral(a, b) = k.payload { Some(&lit[a as usize..b as usize]) } else { None }
        };
        match k.ty {
            T::StringLiteral | T::BitTestingLiteral | T::DateLiteral | T::DateTimeLiteral | T::NameLiteral | T::TimeLiteral
                if txt.starts_with('\'') =>
            {
                // content between the quotes
                let body = &txt[1..];
                // the closing quote is the first quote that is not half of a doubled quote
                let bb = body.as_bytes();
                let mut p = 0usize;
                let mut close: Option<usize> = None;
                while p < bb.len() {
                    if bb[p] == b'\'' {
                        if p + 1 < bb.len() && bb[p + 1] == b'\'' { p += 2; continue; }
                        close = Some(p);
                        break;
                    }
                    p += 1;
                }
                let (content, closed) = match close { Some(p) => (&body[..p], true), None => (body, false) };
                if closed || !unterminated {
                    let want = content.replace("''", "'");
                    match val(k) {
                        Some(v) if v != want => return Err(format!("token {i} {txt:?}: payload {v:?} expected {want:?}")),
                        None if want != content => return Err(format!("token {i} {txt:?}: no payload although it contains an escape")),
                        _ => {}
                    }
                }
            }
            T::HexStringLiteral if txt.starts_with('\'') && txt.len() >= 3 => {
                let content = &txt[1..txt.len() - 2];
                let digits: String = content.chars().filter(|c| *c != ',').collect();
                let valid = digits.len() % 2 == 0 && digits.chars().all(|c| c.is_ascii_hexdigit());
                if !valid {
                    // not hex digit pairs: the token is reported as invalid and carries, like any quoted literal,
                    // its unquoted content when that differs from the text
                    let want = content.replace("''", "'");
                    match val(k) {
                        Some(v) if v != want => return Err(format!("token {i} {txt:?}: decoded although it is not hex digit pairs (value {v:?})")),
                        None if want != content => return Err(format!("token {i} {txt:?}: no payload although it contains an escape")),
                        _ => {}
                    }
                } else if let Some(v) = val(k) {
                    let want: String = (0..digits.len() / 2).map(|j| u8::from_str_radix(&digits[2 * j..2 * j + 2], 16).unwrap() as char).collect();
                    if v != want {
                        return Err(format!("token {i} {txt:?}: decoded {v:?} expected {want:?}"));
                    }
                } else if !digits.is_empty() {
                    return Err(format!("token {i} {txt:?}: hex digit pairs without a decoded payload"));
                }
            }
            T::StringLiteral | T::BitTestingLiteral | T::DateLiteral | T::DateTimeLiteral | T::NameLiteral | T::TimeLiteral | T::HexStringLiteral
                if txt.starts_with('"') && !unterminated =>
            {
                // a plain double-quoted literal: content between the opening quote and the last quote
                if let Some(p) = txt[1..].rfind('"') {
                    let content = &txt[1..1 + p];
                    let digits: String = content.chars().filter(|c| *c != ',').collect();
                    let hex_ok = k.ty == T::HexStringLiteral && digits.len() % 2 == 0 && digits.chars().all(|c| c.is_ascii_hexdigit());
                    let want: String = if hex_ok {
                        (0..digits.len() / 2).map(|j| u8::from_str_radix(&digits[2 * j..2 * j + 2], 16).unwrap() as char).collect()
                    } else {
                        content.replace("\"\"", "\"")
                    };
                    match val(k) {
                        Some(v) if v != want => return Err(format!("token {i} {txt:?}: payload {v:?} expected {want:?}")),
                        None if want != content => return Err(format!("token {i} {txt:?}: no payload although its value {want:?} differs from its text")),
                        _ => {}
                    }
                }
            }
            T::StringExprText => {
                let want = txt.replace("\"\"", "\"");
                match val(k) {
                    Some(v) if v != want => return Err(format!("token {i} {txt:?}: payload {v:?} expected {want:?}")),
                    None if want != txt => return Err(format!("token {i} {txt:?}: no payload although it contains an escape")),
                    _ => {}
                }
            }
            T::MacroString if in_str_call > 0 => {
                let want = unq_pct(txt);
                match val(k) {
                    Some(v) if v != want => return Err(format!("token {i} {txt:?} in %str: payload {v:?} expected {want:?}")),
                    None if want != txt => return Err(format!("token {i} {txt:?} in %str: no payload although it contains a %-quoted char")),
                    _ => {}
                }
            }
            _ => {}
        }
        if in_str_call > 0 && k.ty == T::RPAREN && k.ch == TokenChannel::HIDDEN {
            in_str_call = 0;
        }
    }
    if expect_start as usize != lit.len() {
        return Err(format!("payload ranges end at {expect_start} but the literal buffer has {} bytes", lit.len()));
    }
    Ok(())
}

// ---------------------------------------------------------------- C09
fn missing_kind(ty: TokenType) -> Option<ErrorKind> {
    Some(match ty {
        TokenType::RPAREN => ErrorKind::MissingExpectedRParen,
        TokenType::ASSIGN => ErrorKind::MissingExpectedAssign,
        TokenType::LPAREN => ErrorKind::MissingExpectedLParen,
        TokenType::COMMA => ErrorKind::MissingExpectedComma,
        TokenType::FSLASH => ErrorKind::MissingExpectedFSlash,
        _ => return None,
    })
}
fn c09(src: &str) -> R {
    let r = lex(src)?;
    let t = toks(&r.buffer)?;
    let mut prev = 0u32;
    for e in &r.errors {
        let b = e.at_byte_offset() as usize;
        if b > src.len() || !src.is_char_boundary(b) {
            return Err(format!("error {:?} at invalid offset {b}", e.error_kind()));
        }
        if e.at_byte_offset() < prev {
            return Err(format!("error {:?} at {b} listed after an error at {prev}", e.error_kind()));
        }
        prev = e.at_byte_offset();
        if let Some(ti) = e.last_token() {
            let i = ti.get() as usize;
            if i >= t.len() {
                return Err(format!("error {:?} names token {i} which does not exist", e.error_kind()));
            }
            if t[i].b0 > b {
                return Err(format!("error {:?} at {b} names token {i} starting at {}", e.error_kind(), t[i].b0));
            }
        }
        let (ty, is_semi) = match e.error_kind() {
            ErrorKind::MissingExpectedRParen => (TokenType::RPAREN, false),
            ErrorKind::MissingExpectedAssign => (TokenType::ASSIGN, false),
            ErrorKind::MissingExpectedLParen => (TokenType::LPAREN, false),
            ErrorKind::MissingExpectedComma => (TokenType::COMMA, false),
            ErrorKind::MissingExpectedFSlash => (TokenType::FSLASH, false),
            ErrorKind::MissingExpectedSemiOrEOF => (TokenType::SEMI, true),
            _ => continue,
        };
        let _ = is_semi;
        if !t.iter().any(|k| k.ty == ty && k.b0 == b && k.b1 == b) {
            return Err(format!("{:?} at {b} without a zero-width {:?} token there", e.error_kind(), ty));
        }
    }
    for (i, k) in t.iter().enumerate() {
        if k.b0 == k.b1 {
            if let Some(kind) = missing_kind(k.ty) {
                if !r.errors.iter().any(|e: &ErrorInfo| e.error_kind() == kind && e.at_byte_offset() as usize == k.b0) {
                    return Err(format!("zero-width {:?} token {i} at {} without a {:?} error", k.ty, k.b0, kind));
                }
            }
        }
    }
    Ok(())
}

// ---------------------------------------------------------------- C10
fn c10(src: &str) -> R {
    use TokenType as T;
    let r = lex(src)?;
    let t = toks(&r.buffer)?;
    let mut depth: i32 = 0;
    for (i, k) in t.iter().enumerate() {
        match k.ty {
            T::StringExprStart => depth += 1,
            T::StringExprEnd | T::BitTestingLiteralExprEnd | T::DateLiteralExprEnd | T::DateTimeLiteralExprEnd
            | T::NameLiteralExprEnd | T::TimeLiteralExprEnd | T::HexStringLiteralExprEnd => {
                depth -= 1;
                if depth < 0 {
                    return Err(format!("string expression end at token {i} without a start"));
                }
            }
            T::StringExprText if depth == 0 => return Err(format!("string expression text at token {i} outside a start/end pair")),
            T::DatalinesStart => {
                if !(i + 2 < t.len() && t[i + 1].ty == T::DatalinesData && t[i + 2].ty == T::SEMI) {
                    return Err(format!("datalines start at token {i} not followed by data and terminator"));
                }
            }
            T::MacroLabel => {
                let mut j = i + 1;
                while j < t.len() && (t[j].ch == TokenChannel::COMMENT || (t[j].ch == TokenChannel::HIDDEN && t[j].ty == T::WS)) {
                    j += 1;
                }
                if !(j < t.len() && t[j].ty == T::COLON && t[j].ch == TokenChannel::HIDDEN) {
                    return Err(format!("macro label at token {i} not followed by its hidden colon"));
                }
            }
            T::KwmEval | T::KwmSysevalf | T::KwmScan | T::KwmQScan | T::KwmSubstr | T::KwmQSubstr | T::KwmIndex | T::KwmSysfunc
            | T::KwmQSysfunc | T::KwmStr | T::KwmNrStr | T::KwmUpcase | T::KwmLength | T::KwmUnquote | T::KwmBquote | T::KwmNrBquote
            | T::KwmQuote | T::KwmNrQuote | T::KwmSuperq | T::KwmSymExist | T::KwmSysget => {
                let mut j = i + 1;
                while j < t.len() && (t[j].ch == TokenChannel::COMMENT || (t[j].ch == TokenChannel::HIDDEN && t[j].ty == T::WS)) {
                    j += 1;
                }
                if !(j < t.len() && t[j].ty == T::LPAREN && t[j].ch == k.ch) {
                    return Err(format!("built-in {:?} at token {i} not followed by its opening parenthesis on the same channel", k.ty));
                }
            }
            _ => {}
        }
    }
    if depth != 0 {
        return Err(format!("{depth} string expression(s) never closed"));
    }
    Ok(())
}

// ---------------------------------------------------------------- C11 (one rule: `*` starting a statement is a comment)
fn c11(src: &str) -> R {
    use TokenType as T;
    if src.contains('%') || src.contains('&') {
        return Ok(());
    }
    let r = lex(src)?;
    let t = toks(&r.buffer)?;
    let mut last_default: Option<&Tok> = None;
    for (i, k) in t.iter().enumerate() {
        if k.ty == T::STAR {
            let pending = match last_default { None => false, Some(p) => p.ty != T::SEMI };
            if !pending {
                return Err(format!("`*` at token {i} starts a statement but was lexed as STAR"));
            }
        }
        if k.ty == T::PredictedCommentStat {
            let pending = match last_default { None => false, Some(p) => p.ty != T::SEMI };
            if pending {
                return Err(format!("`*` at token {i} inside a statement was lexed as a comment"));
            }
        }
        // quoted literals take their b/d/dt/n/t/x suffix (any case): a closed plain literal is never directly followed by one
        if k.ty == T::StringLiteral && k.b1 - k.b0 >= 2 {
            let txt = &src[k.b0..k.b1];
            let q = txt.chars().next().unwrap_or(' ');
            let unterminated = r.errors.iter().any(|e| e.error_kind() == ErrorKind::UnterminatedStringLiteral);
            if (q == '\'' || q == '"') && txt.ends_with(q) && !unterminated {
                if let Some(n) = src[k.b1..].chars().next() {
                    if matches!(n.to_ascii_lowercase(), 'b' | 'd' | 'n' | 't' | 'x') {
                        return Err(format!("string literal token {i} {txt:?} is directly followed by the suffix letter {n:?} that belongs to it"));
                    }
                }
            }
        }
        // a datalines word at statement start that is followed (after white space) by `;` starts a datalines block
        if k.ty == T::Identifier {
            let w = src[k.b0..k.b1].to_ascii_lowercase();
            if matches!(w.as_str(), "datalines" | "cards" | "lines" | "datalines4" | "cards4" | "lines4") {
                let at_start = match last_default { None => true, Some(p) => p.ty == T::SEMI };
                let next = src[k.b1..].chars().find(|c| !c.is_whitespace());
                if at_start && next == Some(';') {
                    return Err(format!("`{w}` at token {i} starts a statement and is followed by `;` but was lexed as an identifier"));
                }
            }
        }
        // identifiers and keywords are longest matches: `_`/XID_Start, then XID_Continue, and no identifier character follows
        let name = format!("{:?}", k.ty);
        if k.ty == T::Identifier || (name.starts_with("Kw") && !name.starts_with("Kwm") && k.b1 > k.b0 && src[k.b0..].starts_with(|c: char| c == '_' || unicode_ident::is_xid_start(c))) {
            let txt = &src[k.b0..k.b1];
            let mut cs = txt.chars();
            let first_ok = cs.next().is_some_and(|c| c == '_' || unicode_ident::is_xid_start(c));
            if !first_ok || !cs.all(unicode_ident::is_xid_continue) {
                return Err(format!("identifier-like token {i} {txt:?} is not `_`/XID_Start followed by XID_Continue"));
            }
            if let Some(n) = src[k.b1..].chars().next() {
                if unicode_ident::is_xid_continue(n) {
                    return Err(format!("identifier-like token {i} {txt:?} is not the longest match: {n:?} follows"));
                }
            }
        }
        // (accepted reading, DESIGN §9: a stray catch-all character counts as the start of a statement)
        if k.ch == TokenChannel::DEFAULT || k.ty == T::CatchAll {
            last_default = Some(k);
        }
    }
    Ok(())
}

// ---------------------------------------------------------------- C16 / C17 (two-run)
fn signature(src: &str) -> Result<Vec<(TokenType, TokenChannel, usize, u32, String)>, String> {
    let r = lex(src)?;
    let t = toks(&r.buffer)?;
    let mut v: Vec<_> = t.iter().map(|k| {
        let p = match k.payload {
            Payload::Integer(x) => format!("I{x}"),
            Payload::Float(f) => format!("F{f}"),
            // unquoted text may differ in letter case only; a decoded hex value may not differ at all
            Payload::StringLiteral(a, b) => {
                let v = r.buffer.string_literals_buffer().get(a as usize..b as usize).unwrap_or("<bad range>");
                if k.ty == TokenType::HexStringLiteral && !r.errors.iter().any(|e| e.error_kind() == ErrorKind::InvalidHexStringConstant) {
                    format!("X{v}")
                } else {
                    format!("S{}", v.to_ascii_lowercase())
                }
            }
            Payload::None => "N".into(),
        };
        (k.ty, k.ch, k.b0, k.c0, p)
    }).collect();
    for e in &r.errors {
        v.push((TokenType::EOF, TokenChannel::COMMENT, e.at_byte_offset() as usize, e.error_kind() as u32, "E".into()));
    }
    Ok(v)
}
fn c16(src: &str) -> R {
    let a = signature(src)?;
    for variant in [src.to_ascii_uppercase(), src.to_ascii_lowercase()] {
        let b = signature(&variant)?;
        if a != b {
            let i = a.iter().zip(b.iter()).position(|(x, y)| x != y).unwrap_or(a.len().min(b.len()));
            return Err(format!("case variant {variant:?} lexes differently at item {i}: {:?} vs {:?}", a.get(i), b.get(i)));
        }
    }
    Ok(())
}
fn c17(src: &str) -> R {
    if src.starts_with('\u{feff}') {
        return Ok(());
    }
    let a = signature(src)?;
    let with = format!("\u{feff}{src}");
    let b = signature(&with)?;
    if a.len() != b.len() {
        return Err(format!("{} items without BOM, {} with", a.len(), b.len()));
    }
    for (i, (x, y)) in a.iter().zip(b.iter()).enumerate() {
        let shifted = if x.4 == "E" { (x.0, x.1, x.2 + 3, x.3, x.4.clone()) } else { (x.0, x.1, x.2 + 3, x.3 + 1, x.4.clone()) };
        if shifted != *y {
            return Err(format!("item {i}: {:?} vs with BOM {:?}", x, y));
        }
    }
    // lines and columns unchanged
    let ra = lex(src)?;
    let rb = lex(&with)?;
    for (ta, tb) in ra.buffer.iter_tokens().zip(rb.buffer.iter_tokens()) {
        if ra.buffer.get_token_start_line(ta) != rb.buffer.get_token_start_line(tb)
            || ra.buffer.get_token_start_column(ta) != rb.buffer.get_token_start_column(tb)
            || ra.buffer.get_token_end_column(ta) != rb.buffer.get_token_end_column(tb) {
            return Err(format!("line/column of token {} changes with a BOM", ta.get()));
        }
    }
    Ok(())
}


// ---------------------------------------------------------------- C14 (a narrow consequence of the statement, used to
// re-confirm recorded findings only): an iterative `%do <name> <start> %to ...` written without its `=` must report
// MissingExpectedAssign together with a zero-width ASSIGN token at the same offset
fn c14(src: &str) -> R {
    let r = lex(src)?;
    let t = toks(&r.buffer)?;
    // a ')' still open at end of input: a call `%name(...` without quotes, comments or macro triggers inside must be closed
    // by exactly as many zero-width RPAREN tokens at the end of input as parentheses are open, with the error there
    if let Some(p) = src.find('(') {
        let name = &src[..p];
        let body = &src[p..];
        if matches!(name, "%m" | "%upcase" | "%eval" | "%str")
            && !body.contains(|c: char| matches!(c, '\'' | '"' | '%' | '&' | '/' | '*' | ';'))
        {
            let open = body.matches('(').count() as i64 - body.matches(')').count() as i64;
            let mut depth = 0i64;
            let balanced_prefix = body.chars().all(|c| { if c == '(' { depth += 1 } else if c == ')' { depth -= 1 }; depth >= 1 });
            if open >= 1 && balanced_prefix {
                let n = t.iter().filter(|k| k.ty == TokenType::RPAREN && k.b0 == src.len() && k.b1 == src.len()).count() as i64;
                if n != open {
                    return Err(format!("{open} parenthes(es) still open at end of input, {n} zero-width RPAREN recovery token(s) there"));
                }
                if !r.errors.iter().any(|e| e.error_kind() == ErrorKind::MissingExpectedRParen && e.at_byte_offset() as usize == src.len()) {
                    return Err("parentheses still open at end of input but no MissingExpectedRParen reported there".into());
                }
            }
        }
    }
    if let Some(rest) = src.strip_prefix("%do ") {
        if let Some(k) = rest.find(" %to ") {
            let head = &rest[..k];
            let mut parts = head.split(' ');
            let (name, start, more) = (parts.next().unwrap_or(""), parts.next().unwrap_or(""), parts.next());
            let plain_name = {
                let n = name.strip_prefix('%').or_else(|| name.strip_prefix('&')).unwrap_or(name);
                !n.is_empty() && n.chars().next().is_some_and(|c| c.is_ascii_alphabetic() || c == '_') && n.chars().all(|c| c.is_ascii_alphanumeric() || c == '_')
                    && !matches!(name.to_ascii_lowercase().as_str(), "%while" | "%until" | "%to" | "%by")
            };
            if plain_name && more.is_none() && !start.is_empty() && start.bytes().all(|b| b.is_ascii_digit()) {
                let e = r.errors.iter().find(|e| e.error_kind() == ErrorKind::MissingExpectedAssign);
                match e {
                    None => return Err("iterative %do without `=`: no MissingExpectedAssign reported".into()),
                    Some(e) => {
                        let off = e.at_byte_offset() as usize;
                        if !t.iter().any(|k| k.ty == TokenType::ASSIGN && k.b0 == off && k.b1 == off) {
                            return Err(format!("MissingExpectedAssign at {off} without a zero-width ASSIGN token there"));
                        }
                    }
                }
            }
        }
    }
    Ok(())
}

// ---------------------------------------------------------------- C08
fn c08(src: &str) -> R {
    use TokenType as T;
    let r = lex(src)?;
    let t = toks(&r.buffer)?;
    for (i, k) in t.iter().enumerate() {
        if !matches!(k.ty, T::IntegerLiteral | T::FloatLiteral | T::FloatExponentLiteral) {
            continue;
        }
        // "has no numeric-literal error attached": errors of these kinds are emitted right after their token
        let attached = r.errors.iter().any(|e| {
            matches!(e.error_kind(), ErrorKind::InvalidNumericLiteral | ErrorKind::UnterminatedHexNumericLiteral)
                && e.last_token().map(|x| x.get() as usize) == Some(i)
        });
        if attached {
            continue;
        }
        let txt = &src[k.b0..k.b1];
        if !txt.is_ascii() || txt.is_empty() {
            return Err(format!("numeric token {i} {txt:?} is not an ASCII literal"));
        }
        let lower = txt.to_ascii_lowercase();
        let (want_ty, want): (T, Payload) = if let Some(h) = lower.strip_suffix('x') {
            match u64::from_str_radix(h, 16) {
                Ok(v) => (T::IntegerLiteral, Payload::Integer(v)),
                Err(_) => continue, // not a plain hex integer: outside what the statement fixes
            }
        } else if lower.bytes().all(|b| b.is_ascii_digit()) {
            match lower.parse::<u64>() {
                Ok(v) => (T::IntegerLiteral, Payload::Integer(v)),
                Err(_) => (T::FloatLiteral, Payload::Float(lower.parse::<f64>().map_err(|e| e.to_string())?)),
            }
        } else {
            let v = match lower.parse::<f64>() {
                Ok(v) => v,
                Err(_) => continue,
            };
            (if lower.contains('e') { T::FloatExponentLiteral } else { T::FloatLiteral }, Payload::Float(v))
        };
        let same = match (k.payload, want) {
            (Payload::Integer(a), Payload::Integer(b)) => a == b,
            (Payload::Float(a), Payload::Float(b)) => a.to_bits() == b.to_bits(),
            _ => false,
        };
        if k.ty != want_ty || !same {
            return Err(format!("numeric token {i} {txt:?}: {:?} {:?}, the text denotes {:?} {:?}", k.ty, k.payload, want_ty, want));
        }
    }
    Ok(())
}

// ---------------------------------------------------------------- C18 (second sentence; needs a macro_sep build)
fn c18(src: &str) -> R {
    use TokenType as T;
    let r = lex(src)?;
    let t = toks(&r.buffer)?;
    for (i, k) in t.iter().enumerate() {
        if k.ty != T::MacroSep {
            continue;
        }
        if k.b0 != k.b1 || k.ch != TokenChannel::DEFAULT || k.payload != Payload::None {
            return Err(format!("MacroSep at token {i} is not a zero-width default-channel token without payload"));
        }
        let prev = t[..i].iter().rev().find(|x| x.ch == TokenChannel::DEFAULT).map(|x| x.ty);
        if matches!(prev, None | Some(T::SEMI | T::MacroLabel | T::KwmThen | T::KwmElse | T::MacroSep)) {
            return Err(format!("MacroSep at token {i} stands directly after {prev:?}"));
        }
        match t.get(i + 1) {
            Some(n) if n.ty == T::MacroLabel || format!("{:?}", n.ty).starts_with("Kwm") => {}
            other => return Err(format!("MacroSep at token {i} is followed by {:?}, not by a macro statement keyword or label", other.map(|x| x.ty))),
        }
    }
    Ok(())
}

fn twin(prop: &str, src: &str) -> R {
    let r = twin_inner(prop, src);
    match (&r, prop) {
        (Err(m), p) if p != "C01" && p != "C19" && (m == "PANIC" || m.starts_with("lex_program returned Err")) => Ok(()),
        _ => r,
    }
}
fn twin_inner(prop: &str, src: &str) -> R {
    match prop {
        "C01" => c01(src),
        "C02" => c02(src),
        "C03" => c03(src),
        "C04" => c04(src),
        "C05" => c05(src),
        "C06" => c06(src),
        "C07" => c07(src),
        "C08" => c08(src),
        "C09" => c09(src),
        "C10" => c10(src),
        "C11" => c11(src),
        "C14" => c14(src),
        "C18" => c18(src),
        "C16" => c16(src),
        "C17" => c17(src),
        "C19" => c01(src),
        // no end-to-end twin: nothing can be attached, which is not a failure of the input
        _ => Ok(()),
    }
}

fn fragments(prop: &str) -> Vec<&'static str> {
    let mut base = vec!["a", " ", ";", "\n", "(", ")", ",", "=", "\"", "'", "%", "&", "*", "/", "1", ".", "é", "x"];
    let extra: Vec<&'static str> = match prop {
        "C07" => vec!["%str(", "%%", "''", "\"\"", "%'", "'x", "\"x", "+f", "%(", "&&", "%nrstr(", "41", "0g"],
        "C08" => vec!["0", "9", "e", "E", "+", "-", "f", "%eval(", "%sysevalf(", "00000000000000000000", "18446744073709551615", "18446744073709551616", "1e5", "0fx", " x", "1.e5"],
        "C13" | "C18" => vec!["%m(", "%macro ", "%l:", "%if ", "%then ", "%else ", "%do;", "%end;", "%let ", "/*c*/", "%str(", "%eval("],
        "C09" | "C14" => vec!["%do ", "%m", "%to ", "%let ", "%eval(", "%scan(", "%if ", "%then ", "%macro ", "%end", "%upcase(", "%m(", "b"],
        "C10" => vec!["%eval(", "%str(", "%do ", "%scan(", "datalines;", "%m", ":"],
        "C06" | "C11" => vec!["datalines4;", "datalines;", "datalines", ";;;;", ";;", "data a;", "/*", "*/", "cards;", "\u{a0}", "\u{3000}", "\u{301}", "\u{663}", "\u{17f}et", "\u{131}f"],
        "C04" | "C05" | "C02" | "C03" | "C17" => vec!["/*", "*/", "%m(", "😀", "%str(", "datalines;", "\u{feff}", "%*", "%let ", "%ю", "юа", "%eval(", "%if ", "$", "%put "],
        "C16" => vec!["ge", "eq", "%eval(", "'x", "e1", "0fx", "d", "dt", "%if ", "nE", "datalines;", "%then"],
        "C01" | "C19" => vec!["%do ", "%m(", "%*", "%let ", "%macro ", "%if ", "%to ", "%eval(", "%str(", "%sysfunc("],
        _ => vec![],
    };
    base.extend(extra);
    base
}

/// `\u{XXXX}` in a corpus line stands for that scalar value
fn unescape_u(l: &str) -> String {
    let mut out = String::new();
    let mut rest = l;
    while let Some(p) = rest.find("\\u{") {
        out.push_str(&rest[..p]);
        let tail = &rest[p + 3..];
        match tail.find('}').and_then(|e| u32::from_str_radix(&tail[..e], 16).ok().and_then(char::from_u32).map(|c| (c, e))) {
            Some((c, e)) => {
                out.push(c);
                rest = &tail[e + 1..];
            }
            None => {
                out.push_str("\\u{");
                rest = tail;
            }
        }
    }
    out.push_str(rest);
    out
}

fn corpus() -> Vec<String> {
    let dir = std::env::var("REPLAY_CORPUS").unwrap_or_else(|_| concat!(env!("CARGO_MANIFEST_DIR"), "/corpus").to_string());
    let mut v = Vec::new();
    if let Ok(rd) = std::fs::read_dir(&dir) {
        let mut files: Vec<_> = rd.flatten().map(|e| e.path()).collect();
        files.sort();
        for f in files {
            if let Ok(t) = std::fs::read_to_string(&f) {
                for l in t.lines() {
                    if !l.is_empty() {
                        v.push(unescape_u(&l.replace("\\n", "\n")));
                    }
                }
            }
        }
    }
    v
}

fn search(prop: &str, depth: usize) -> Option<(String, String)> {
    let frags = fragments(prop);
    let n = frags.len();
    // 1. corpus strings, their truncations, and single-fragment edits of them
    let corp = corpus();
    for s in &corp {
        if let Err(m) = twin(prop, s) {
            return Some((s.clone(), m));
        }
    }
    for s in &corp {
        let cuts: Vec<usize> = s.char_indices().map(|(i, _)| i).chain(std::iter::once(s.len())).collect();
        for &c in &cuts {
            let t = &s[..c];
            if let Err(m) = twin(prop, t) {
                return Some((t.to_string(), m));
            }
        }
        if depth >= 4 {
            for &c in &cuts {
                for f in &frags {
                    let t = format!("{}{}{}", &s[..c], f, &s[c..]);
                    if let Err(m) = twin(prop, &t) {
                        return Some((t, m));
                    }
                }
            }
            for w in cuts.windows(2) {
                let t = format!("{}{}", &s[..w[0]], &s[w[1]..]);
                if let Err(m) = twin(prop, &t) {
                    return Some((t, m));
                }
            }
        }
    }
    // 2. blind enumeration of fragment strings
    let mut idx: Vec<usize> = vec![];
    // iterative deepening: all strings of 1..=depth fragments
    for len in 1..=depth {
        idx.clear();
        idx.resize(len, 0);
        loop {
            let s: String = idx.iter().map(|i| frags[*i]).collect();
            if let Err(m) = twin(prop, &s) {
                return Some((s, m));
            }
            // next
            let mut p = len;
            loop {
                if p == 0 {
                    break;
                }
                p -= 1;
                idx[p] += 1;
                if idx[p] < n {
                    break;
                }
                idx[p] = 0;
                if p == 0 {
                    p = usize::MAX;
                    break;
                }
            }
            if p == usize::MAX {
                break;
            }
        }
    }
    None
}

fn json_str(s: &str) -> String {
    let mut o = String::from("\"");
    for c in s.chars() {
        match c {
            '"' => o.push_str("\\\""),
            '\\' => o.push_str("\\\\"),
            '\n' => o.push_str("\\n"),
            c if (c as u32) < 0x20 => o.push_str(&format!("\\u{:04x}", c as u32)),
            c => o.push(c),
        }
    }
    o.push('"');
    o
}

fn main() {
    panic::set_hook(Box::new(|_| {}));
    let a: Vec<String> = std::env::args().collect();
    if a.len() < 2 {
        eprintln!("usage: replay check|search|dump ...");
        std::process::exit(2);
    }
    match a[1].as_str() {
        "check" => {
            let src = if a[3] == "--hex" { hex_decode(&a[4]) } else { a[4].clone() };
            match twin(&a[2], &src) {
                Ok(()) => println!("PASS property={} input={}", a[2], json_str(&src)),
                Err(m) => {
                    println!("FAIL property={} input={} : {}", a[2], json_str(&src), m);
                    std::process::exit(1);
                }
            }
        }
        "search" => {
            let depth: usize = a[3].parse().unwrap();
            if let Some((s, m)) = search(&a[2], depth) {
                println!("WITNESS {{\"text\": {}, \"hex\": \"{}\", \"why\": {}}}", json_str(&s), hex_encode(&s), json_str(&m));
            } else {
                println!("NOWITNESS depth={depth}");
            }
        }
        "dump" => {
            let src = if a[2] == "--hex" { hex_decode(&a[3]) } else { a[3].clone() };
            match lex(&src) {
                Ok(r) => {
                    for t in toks(&r.buffer).unwrap() {
                        println!("{:?} {:?} [{}..{}] {:?} {:?}", t.ty, t.ch, t.b0, t.b1, &src[t.b0..t.b1], t.payload);
                    }
                    println!("lit={:?}", r.buffer.string_literals_buffer());
                    for e in &r.errors {
                        println!("ERR {:?} at {} line {} col {} last_token {:?}", e.error_kind(), e.at_byte_offset(), e.on_line(), e.at_column(), e.last_token());
                    }
                }
                Err(e) => println!("{e}"),
            }
        }
        _ => std::process::exit(2),
    }
}
